#!/usr/bin/env python3
"""
Source translator, part 2: whole CODEC METHODS (pack / unpack / __eq__ that read and WRITE their object), in
state-passing style.  Reuses the expression / statement translation of `translate.py` (class `Fn`); this module adds

  * the object:      `structure Obj` with one field per attribute that `__init__` assigns at its top level
                     (`self.x = …` / `self.x: T = …`), typed Int / Bytes / Bool from the annotation, the initial value, or
                     the `fields=` override of the METHODS table.  TYPING ASSUMPTION (the same one the hand models make by
                     using `Nat` / `Bytes` fields): every carried attribute holds a value of its declared type whenever a
                     translated method runs; in particular it is never `None`.  Underscore attributes are carried only when
                     a translated method uses them; `self._s = struct.Struct(FMT)` is not a field: it is the constant
                     format it names (it must not be assigned anywhere else in the class).
  * methods:         `def m (o : Obj) (p : T) … : Obj × R result`.  `self.x = e` re-binds the local `self_x`; wherever the
                     method leaves (return, raise, an operation that raises) the object is the record update
                     `{ o with x := self_x, … }` of the attributes assigned so far — the state AT the raise for a raising
                     path, as in the hand-written models.  Falling off the end returns `()`.
  * expressions:     class constants `Cls.NAME` (int, str used as a struct format, tuple of str used as an attribute
                     list; evaluated from the class body: literals, earlier constants, `struct.calcsize`),
                     `self._s.pack(*vals)` / `self._s.unpack_from(buf)` / `self._s.unpack(buf)`,
                     `struct.pack / unpack / unpack_from(Cls.FMT, …)`, `x is None` / `x is not None` for a carried
                     attribute (False / True under the typing assumption; the dead branch is dropped, with a note).
  * statements:      `for a in Cls.NAMES: body` over a constant tuple of attribute names is UNROLLED, with
                     `getattr(obj, a)` -> `obj.<name>` and `a` -> the string constant; this covers
                     `for attr in Cls.REQ_ATTR: if getattr(self, attr) is None: raise …` and
                     `for attr in Cls.REQ_ATTR: if getattr(self, attr) != getattr(other, attr): return False`.
                     `raise E("…".format(e, …))` with int-valued arguments (formatting an int cannot raise).
  * also:            alias properties (`@property def p(self): return self._x`, setter `self._x = v`) resolved to the
                     attribute; constants of OTHER classes of the module (`Pcap.RECORD_HEADER_FORMAT`); `struct.calcsize(FMT)`;
                     `self._names = Cls.NAMES` (a constant tuple of attribute names assigned only in `__init__`) as the
                     iterable of an unrolled loop, and literal tuples of names; `type(x) != int`; `b[lo:-K]`,
                     `unpack_from(fmt, b, -K)` (counted from the end); bool operands of arithmetic, `int(bool)`, `bool(int)`;
                     `logger.warning(CONSTANT)` (module-level `logging.getLogger`) as a no-op; f-string / `.format` exception
                     messages over ints; calls of module functions translated by translate.py (`uses=` in the table).
  Everything else stays a `TranslationError` naming the construct (tools/srctie_methods_negative.py holds 28 cases).

Output: `lean/Acra/Gen/Src/Cls/<Class>.lean` (namespace `Acra.Gen.Src.Cls.<Class>`), table `METHODS` in
`harness/extract_tables/srctie_methods.py`, tie theorems `Acra.Props.Cxx.src_<Class>_<method>` in
`lean/Acra/Props/Cxx/SrcTieCls.lean`.  Called from `extract.generate()` right after `translate.generate()`; the report
entries are appended to `translate.LAST_REPORT` so that `runner.source_translated` lists them.
"""
import ast, os, sys, json, string, struct as _struct

try:
    from . import translate as tr
except ImportError:          # run as a script: harness/ is sys.path[0]
    import translate as tr

TranslationError = tr.TranslationError
V, INT, BOOL, BYTES, INTS = tr.V, tr.INT, tr.BOOL, tr.BYTES, tr.INTS
OUT = os.path.join(tr.OUT, "Cls")
TYPES = {"int": INT, "bytes": BYTES, "bool": BOOL, "bytearray": BYTES}

# ------------------------------------------------------------------------------------------------ the class

class ClassInfo:
    """what the translator knows about one class: its constants, the attributes `__init__` assigns, its Struct attributes"""
    def __init__(self, mod, clsname, spec):
        self.mod, self.name, self.spec = mod, clsname, spec
        node = mod.find(clsname)
        if not isinstance(node, ast.ClassDef):
            raise TranslationError("%s: %s is not a class" % (mod.relpath, clsname))
        self.node = node
        for b in node.bases:
            if not (isinstance(b, ast.Name) and b.id == "object"):
                raise TranslationError("%s:%d class %s has the base class %s: inherited methods / attributes are not in "
                                       "the subset" % (mod.relpath, node.lineno, clsname, ast.unparse(b)))
        if node.keywords or node.decorator_list:
            raise TranslationError("%s:%d class %s: metaclass / class decorators are not in the subset" % (mod.relpath, node.lineno, clsname))
        self.methods = {}
        for n in node.body:
            if isinstance(n, ast.FunctionDef):
                self.methods[n.name] = n
                if n.name in ("__setattr__", "__getattr__", "__getattribute__", "__delattr__"):
                    raise TranslationError("%s:%d class %s defines %s: attribute access is not plain" % (mod.relpath, n.lineno, clsname, n.name))
        self.consts = {}          # name -> python value (int | str | tuple of str)
        self.const_lines = {}
        self.used_consts = []     # (owner class, name) of the int constants emitted as Lean defs, in order of first use
        self.others = {}          # other class of the module -> (consts, const_lines)
        self._class_constants()
        # alias properties: `@property def p(self): return self.<attr>` / `@p.setter def p(self, v): self.<attr> = v`
        self.getters, self.setters, self.opaque = {}, {}, set()
        for n in node.body:
            if not isinstance(n, ast.FunctionDef) or not n.decorator_list:
                continue
            body = [x for x in n.body if not (isinstance(x, ast.Expr) and isinstance(x.value, ast.Constant))]
            d = n.decorator_list[0]
            sn = n.args.args[0].arg if n.args.args else None
            if len(n.decorator_list) == 1 and isinstance(d, ast.Name) and d.id == "property" and len(body) == 1 \
               and isinstance(body[0], ast.Return) and isinstance(body[0].value, ast.Attribute) \
               and isinstance(body[0].value.value, ast.Name) and body[0].value.value.id == sn and len(n.args.args) == 1:
                self.getters[n.name] = body[0].value.attr
            elif len(n.decorator_list) == 1 and isinstance(d, ast.Attribute) and d.attr == "setter" and isinstance(d.value, ast.Name) \
                    and d.value.id == n.name and len(n.args.args) == 2 and len(body) == 1 and isinstance(body[0], ast.Assign) \
                    and len(body[0].targets) == 1 and isinstance(body[0].targets[0], ast.Attribute) \
                    and isinstance(body[0].targets[0].value, ast.Name) and body[0].targets[0].value.id == sn \
                    and isinstance(body[0].value, ast.Name) and body[0].value.id == n.args.args[1].arg:
                self.setters[n.name] = body[0].targets[0].attr
            elif isinstance(d, ast.Attribute) and d.attr == "setter":
                self.setters[n.name] = None          # a setter that does more than store: assignments through it are refused
            else:
                self.opaque.add(n.name)
        self.fields = []          # [(attribute, INT | BYTES | BOOL)]
        self.init = {}            # attribute -> ast of the initial value
        self.structs = {}         # attribute -> format string
        self.tuple_attrs = {}     # attribute -> (constant tuple of names, source text), assigned only in __init__
        self.not_carried = []     # [(attribute, why)]
        self.notes = []
        self._init_fields()

    def other_consts(self, clsname):
        """the constants of another class of the module (evaluated like the class's own)"""
        if clsname not in self.others:
            node = None
            for n in self.mod.tree.body:
                if isinstance(n, ast.ClassDef) and n.name == clsname:
                    node = n
            if node is None or self.mod.binds(clsname) and sum(1 for n in self.mod.tree.body if isinstance(n, (ast.ClassDef, ast.FunctionDef)) and n.name == clsname) != 1:
                self.others[clsname] = ({}, {})
                return self.others[clsname]
            saved = (self.consts, self.const_lines, self.name, self.node, self.methods)
            self.consts, self.const_lines, self.name, self.node = {}, {}, clsname, node
            self.methods = {n.name: n for n in node.body if isinstance(n, ast.FunctionDef)}
            try:
                self._class_constants()
                self.others[clsname] = (self.consts, self.const_lines)
            finally:
                self.consts, self.const_lines, self.name, self.node, self.methods = saved
        return self.others[clsname]

    def err(self, node, msg):
        raise TranslationError("%s:%s class %s: %s" % (self.mod.relpath, getattr(node, "lineno", "?"), self.name, msg))

    # ---- class constants
    def _const_eval(self, e):
        if isinstance(e, ast.Constant) and isinstance(e.value, (int, str)) and not isinstance(e.value, bool):
            return e.value
        if isinstance(e, ast.Name) and e.id in self.consts:
            return self.consts[e.id]
        if isinstance(e, ast.Attribute) and isinstance(e.value, ast.Name) and e.value.id == self.name and e.attr in self.consts:
            return self.consts[e.attr]
        if isinstance(e, ast.Tuple) and e.elts and all(isinstance(x, ast.Constant) and isinstance(x.value, str) for x in e.elts):
            return tuple(x.value for x in e.elts)
        if isinstance(e, ast.Call) and isinstance(e.func, ast.Attribute) and isinstance(e.func.value, ast.Name) \
           and e.func.value.id == "struct" and e.func.attr == "calcsize" and len(e.args) == 1 and not e.keywords \
           and self.mod.imported("struct", "struct"):
            f = self._const_eval(e.args[0])
            if isinstance(f, str):
                try:
                    if f[:1] not in "<>!=":
                        raise TranslationError("native-alignment format")
                    return _struct.calcsize(f)
                except Exception:
                    return None
        if isinstance(e, ast.BinOp) and isinstance(e.op, (ast.Add, ast.Sub, ast.Mult)):
            a, b = self._const_eval(e.left), self._const_eval(e.right)
            if isinstance(a, int) and isinstance(b, int):
                return {ast.Add: a + b, ast.Sub: a - b, ast.Mult: a * b}[type(e.op)]
        return None

    def _class_constants(self):
        bound = {}
        for n in self.node.body:
            tg = []
            if isinstance(n, ast.Assign):
                tg = n.targets
            elif isinstance(n, (ast.AnnAssign, ast.AugAssign)):
                tg = [n.target]
            for t in tg:
                for x in ast.walk(t):
                    if isinstance(x, ast.Name):
                        bound[x.id] = bound.get(x.id, 0) + 1
        # a constant must not be re-bound through the class or an instance anywhere in the module
        stored = set()
        loopnames = {}        # variable -> names it ranges over, when EVERY binding of it in the module is such a for loop
        for n in ast.walk(self.mod.tree):
            if isinstance(n, ast.Name) and isinstance(n.ctx, (ast.Store, ast.Del)):
                loopnames.setdefault(n.id, set())
        for n in ast.walk(self.mod.tree):
            if isinstance(n, ast.For) and isinstance(n.target, ast.Name) and isinstance(n.iter, (ast.List, ast.Tuple)) \
               and all(isinstance(x, ast.Constant) and isinstance(x.value, str) for x in n.iter.elts):
                if loopnames.get(n.target.id) is not None:
                    loopnames[n.target.id] |= {x.value for x in n.iter.elts}
        nbind = {}
        for n in ast.walk(self.mod.tree):
            if isinstance(n, ast.Name) and isinstance(n.ctx, (ast.Store, ast.Del)):
                nbind[n.id] = nbind.get(n.id, 0) + 1
        nfor = {}
        for n in ast.walk(self.mod.tree):
            if isinstance(n, ast.For) and isinstance(n.target, ast.Name) and isinstance(n.iter, (ast.List, ast.Tuple)) \
               and all(isinstance(x, ast.Constant) and isinstance(x.value, str) for x in n.iter.elts):
                nfor[n.target.id] = nfor.get(n.target.id, 0) + 1
        for v in list(loopnames):
            if nbind.get(v, 0) != nfor.get(v, 0):
                loopnames[v] = None          # also bound some other way: unknown values
        for n in ast.walk(self.mod.tree):
            if isinstance(n, ast.Attribute) and isinstance(n.ctx, (ast.Store, ast.Del)):
                stored.add(n.attr)
            if isinstance(n, ast.Call) and isinstance(n.func, ast.Name) and n.func.id in ("setattr", "delattr"):
                # setattr(x, "name", v) / setattr(x, var, v) with var ranging over a literal list of names: those names;
                # anything else could store any attribute
                a1 = n.args[1] if len(n.args) >= 2 else None
                if isinstance(a1, ast.Constant) and isinstance(a1.value, str):
                    stored.add(a1.value)
                elif isinstance(a1, ast.Name) and a1.id in loopnames and loopnames[a1.id] is not None:
                    stored.update(loopnames[a1.id])
                else:
                    stored.add("*")
        for n in self.node.body:
            if isinstance(n, ast.Assign) and len(n.targets) == 1 and isinstance(n.targets[0], ast.Name):
                nm = n.targets[0].id
                if bound.get(nm) != 1 or nm in stored or "*" in stored or nm in self.methods:
                    continue
                v = self._const_eval(n.value)
                if v is not None:
                    self.consts[nm] = v
                    self.const_lines[nm] = (n.lineno, self.mod.segment(n).split("#")[0].strip())

    # ---- the attributes __init__ assigns
    def _init_fields(self):
        init = self.methods.get("__init__")
        if init is None:
            self.err(self.node, "no __init__")
        selfname = init.args.args[0].arg
        params = {}
        a = init.args
        defaults = [None] * (len(a.args) - len(a.defaults)) + list(a.defaults)
        for x, d in zip(a.args, defaults):
            params[x.arg] = (x.annotation, d)
        over = self.spec.get("fields", {})
        seen = set()
        for st in init.body:
            if isinstance(st, ast.Assign) and len(st.targets) == 1:
                t, val, ann = st.targets[0], st.value, None
            elif isinstance(st, ast.AnnAssign) and st.value is not None:
                t, val, ann = st.target, st.value, st.annotation
            else:
                continue
            if not (isinstance(t, ast.Attribute) and isinstance(t.value, ast.Name) and t.value.id == selfname):
                continue
            nm = t.attr
            if nm in seen:
                self.err(st, "__init__ assigns attribute %s twice" % nm)
            seen.add(nm)
            if isinstance(val, ast.Call) and isinstance(val.func, ast.Attribute) and isinstance(val.func.value, ast.Name) \
               and val.func.value.id == "struct" and val.func.attr == "Struct" and len(val.args) == 1 and not val.keywords:
                f = self._const_eval(val.args[0])
                if not isinstance(f, str):
                    self.err(st, "struct.Struct(%s): the format is not a constant string" % ast.unparse(val.args[0]))
                self.structs[nm] = f
                continue
            tv = self._const_eval(val)
            if isinstance(tv, tuple):
                self.tuple_attrs[nm] = (tv, ast.unparse(val))
                continue
            ty = None
            if nm in over:
                ty = TYPES[over[nm]]
                self.notes.append("attribute %s: type %s declared in the METHODS table" % (nm, over[nm]))
            else:
                ty = self._ann_type(ann)
                if ty is None:
                    ty = self._value_type(val, params)
            if ty is None:
                self.not_carried.append((nm, "initial value `%s`: type not int / bytes / bool" % ast.unparse(val)[:40]))
                continue
            self.fields.append((nm, ty))
            self.init[nm] = val
        # every store to a Struct attribute outside __init__ makes it a variable, not a constant format
        for n in ast.walk(self.node):
            if isinstance(n, ast.Attribute) and isinstance(n.ctx, (ast.Store, ast.Del)) \
               and (n.attr in self.structs or n.attr in self.tuple_attrs):
                inside = any(n is x for x in ast.walk(init))
                if not inside:
                    self.err(n, "the constant attribute %s is assigned outside __init__" % n.attr)
        for d in self.node.body:
            if isinstance(d, ast.FunctionDef) and d.decorator_list and d.name in dict(self.fields):
                self.err(d, "attribute %s is also a decorated method (property?)" % d.name)

    def _ann_type(self, ann):
        if ann is None:
            return None
        if isinstance(ann, ast.Name):
            return TYPES.get(ann.id)
        if isinstance(ann, ast.Subscript) and ast.unparse(ann.value) in ("typing.Optional", "Optional"):
            t = self._ann_type(ann.slice)
            if t is not None:
                self.notes.append("annotation %s is read as %s (typing assumption: never None when a translated method runs)" % (
                    ast.unparse(ann), ast.unparse(ann.slice)))
            return t
        return None

    def _value_type(self, val, params):
        if isinstance(val, ast.Constant):
            if isinstance(val.value, bool):
                return BOOL
            if isinstance(val.value, int):
                return INT
            if isinstance(val.value, bytes):
                return BYTES
            return None
        if isinstance(val, ast.Call) and isinstance(val.func, ast.Name) and val.func.id in ("bytes", "bytearray") and not val.args:
            return BYTES
        c = self._const_eval(val)
        if isinstance(c, int):
            return INT
        if isinstance(val, ast.Name) and val.id in params:
            ann, d = params[val.id]
            return self._ann_type(ann) or (self._value_type(d, {}) if d is not None else None)
        return None

    def lean_fmt(self, fmt, where):
        ex = tr._extract()
        try:
            big, codes = ex.parse_fmt(fmt)
        except Exception as e:
            raise TranslationError("%s: struct format %r: %s" % (where, fmt, e))
        if (not fmt or fmt[0] not in "<>!=") and len(set(codes)) > 1:
            raise TranslationError("%s: native-alignment struct format %r with codes of different sizes (padding) is not in the subset" % (where, fmt))
        if any(c not in (".u8", ".u16", ".u32", ".u64") for c in codes):
            raise TranslationError("%s: signed / non-integer struct code in %r: not in the subset" % (where, fmt))
        return "(⟨%s, [%s]⟩ : Fmt)" % ("true" if big else "false", ", ".join(codes)), len(codes)

# ------------------------------------------------------------------------------------------------ one method

class Unroll(ast.NodeTransformer):
    """`getattr(X, var)` -> `X.<name>`, `var` -> "<name>" """
    def __init__(self, var, name):
        self.var, self.name = var, name
    def visit_Call(self, n):
        if isinstance(n.func, ast.Name) and n.func.id == "getattr" and len(n.args) == 2 and not n.keywords \
           and isinstance(n.args[1], ast.Name) and n.args[1].id == self.var:
            return ast.copy_location(ast.Attribute(value=self.visit(n.args[0]), attr=self.name, ctx=ast.Load()), n)
        return self.generic_visit(n)
    def visit_Name(self, n):
        if n.id == self.var and isinstance(n.ctx, ast.Load):
            return ast.copy_location(ast.Constant(value=self.name), n)
        return n

class MFn(tr.Fn):
    def __init__(self, mod, node, spec, cls, selfname):
        super().__init__(mod, node, spec)
        self.cls, self.selfname = cls, selfname
        self.objnames = {selfname} | {p for p, t in spec.get("params", {}).items() if t == "self"}
        self.monadic = True
        self.cur_env = None
        self.nomonad = 0
        self.rettype = None

    # ---- the object at a program point
    def obj_text(self, env):
        ch = []
        for f, _ in self.cls.fields:
            v = env[self.selfname + "." + f].s
            if v != "o." + tr.lname(f):
                ch.append("%s := %s" % (tr.lname(f), v))
        return "{ o with %s }" % ", ".join(ch) if ch else "o"

    def leave(self, env, res):
        return "(%s, %s)" % (self.obj_text(env), res)

    def set_ret(self, t, node):
        if self.rettype is None:
            self.rettype = t
        elif self.rettype != t:
            self.err(node, "returns both %s and %s" % (self.rettype, t))

    def hoist(self, node, text, t, **kw):
        if self.nomonad or self.loop:
            self.err(node, "an operation that can raise inside a loop or inside an `if` without return / raise is not in the "
                           "subset of method translation")
        return super().hoist(node, text, t, **kw)

    def flush(self, text):
        out = ""
        for n, m in self.pre:
            out += "match (%s) with\n| .error e => %s\n| .ok %s =>\n" % (m, self.leave(self.cur_env, ".error e"), n)
        self.pre = []
        return out + text

    # ---- expressions
    def class_const_info(self, e):
        """`Cls.NAME`, `Other.NAME` for another class of the module, or `self.NAME` for a name that is a class constant and
        not an instance attribute -> (python value, owner class, line) | None"""
        if not (isinstance(e, ast.Attribute) and isinstance(e.value, ast.Name)):
            return None
        base = e.value.id
        if base == self.cls.name and base not in self.locals and e.attr in self.cls.consts:
            return self.cls.consts[e.attr], base, self.cls.const_lines[e.attr]
        if base == self.selfname and e.attr in self.cls.consts and e.attr not in dict(self.cls.fields) \
           and e.attr not in self.cls.structs and e.attr not in self.cls.getters:
            return self.cls.consts[e.attr], self.cls.name, self.cls.const_lines[e.attr]
        if base != self.selfname and base not in self.locals and base != self.cls.name:
            consts, lines = self.cls.other_consts(base)
            if e.attr in consts:
                return consts[e.attr], base, lines[e.attr]
        return None

    def class_const(self, e):
        r = self.class_const_info(e)
        return None if r is None else r[0]

    def alias(self, e):
        """`x.p` for an alias property p of the class -> the attribute node it stands for"""
        if isinstance(e, ast.Attribute) and isinstance(e.value, ast.Name) and e.value.id in self.objnames:
            if e.attr in self.cls.opaque:
                self.err(e, "%s.%s is a property that does more than return an attribute: not in the subset" % (e.value.id, e.attr))
            if e.attr in self.cls.getters:
                self.notes.append("%s.%s is the property that returns %s.%s" % (e.value.id, e.attr, e.value.id, self.cls.getters[e.attr]))
                return ast.copy_location(ast.Attribute(value=e.value, attr=self.cls.getters[e.attr], ctx=e.ctx), e)
        return e

    def expr(self, e, env):
        ci = self.class_const_info(e)
        if ci is not None:
            c, owner, (ln, seg) = ci
            if isinstance(c, int):
                lean = tr.lname(e.attr) if owner == self.cls.name else "%s_%s" % (owner, e.attr)
                if (owner, e.attr) not in [(o, a) for o, a, _, _, _, _ in self.cls.used_consts]:
                    self.cls.used_consts.append((owner, e.attr, lean, ln, seg, c))
                return V(lean, INT, c, c)
            self.err(e, "class constant %s.%s (a %s) is used as a value: only int constants are" % (
                owner, e.attr, type(c).__name__))
        e = self.alias(e)
        if isinstance(e, ast.Attribute) and isinstance(e.value, ast.Name) and e.value.id in env and env[e.value.id].t == "rec":
            key = e.value.id + "." + e.attr
            if key not in env:
                why = dict(self.cls.not_carried).get(e.attr)
                self.err(e, "attribute %s is not carried by the object structure (%s)" % (
                    e.attr, why or "not assigned at the top level of __init__"))
        if isinstance(e, ast.Compare) and len(e.ops) == 1 and isinstance(e.ops[0], (ast.Is, ast.IsNot)):
            return V("(decide %s)" % self.cond(e, env), BOOL)
        return super().expr(e, env)

    def cond(self, e, env):
        if isinstance(e, ast.Compare) and len(e.ops) == 1 and isinstance(e.ops[0], (ast.Is, ast.IsNot)) \
           and isinstance(e.comparators[0], ast.Constant) and e.comparators[0].value is None:
            v = self.expr(e.left, env)
            if v.t in (INT, BYTES, BOOL, tr.BYTEARRAY, INTS):
                self.notes.append("`%s` is %s under the typing assumption (%s holds %s, never None)" % (
                    ast.unparse(e), "False" if isinstance(e.ops[0], ast.Is) else "True", ast.unparse(e.left),
                    {INT: "an int", BOOL: "a bool", INTS: "a list of ints"}.get(v.t, "bytes")))
                return "False" if isinstance(e.ops[0], ast.Is) else "True"
            self.err(e, "`is None` on %s" % v.t)
        if isinstance(e, ast.Compare) and len(e.ops) == 1 and isinstance(e.ops[0], (ast.Eq, ast.NotEq, ast.Is, ast.IsNot)) \
           and isinstance(e.left, ast.Call) and isinstance(e.left.func, ast.Name) and e.left.func.id == "type" \
           and len(e.left.args) == 1 and not e.left.keywords and isinstance(e.comparators[0], ast.Name) \
           and e.comparators[0].id in ("int", "bytes", "bool") and "type" not in self.locals and not self.mod.binds("type") \
           and e.comparators[0].id not in self.locals and not self.mod.binds(e.comparators[0].id):
            v = self.expr(e.left.args[0], env)
            want = {"int": INT, "bytes": BYTES, "bool": BOOL}[e.comparators[0].id]
            if v.t in (INT, BYTES, BOOL):
                same = v.t == want
                pos = isinstance(e.ops[0], (ast.Eq, ast.Is))
                self.notes.append("`%s` is %s under the typing assumption (%s holds a value whose type is exactly %s)" % (
                    ast.unparse(e), same == pos, ast.unparse(e.left.args[0]), {INT: "int", BYTES: "bytes", BOOL: "bool"}[v.t]))
                return "True" if same == pos else "False"
            self.err(e, "type() of %s" % v.t)
        if isinstance(e, ast.UnaryOp) and isinstance(e.op, ast.Not):
            c = self.cond(e.operand, env)
            return {"True": "False", "False": "True"}.get(c, "(¬ %s)" % c)
        if isinstance(e, ast.BoolOp):
            parts = []
            for i, x in enumerate(e.values):
                if i:
                    self.guard += 1
                parts.append(self.cond(x, env))
            self.guard -= len(e.values) - 1
            isand = isinstance(e.op, ast.And)
            absorbing, neutral = ("False", "True") if isand else ("True", "False")
            if absorbing in parts:
                # sound to fold: the other operands are pure conditions (anything that can raise is refused under `guard`,
                # and the first operand of the chain, which is not guarded, is a condition without hoists unless it is kept)
                if parts[0] != absorbing and self.pre:
                    self.err(e, "constant-folding a condition whose first operand can raise")
                return absorbing
            parts = [p for p in parts if p != neutral]
            if not parts:
                return neutral
            return parts[0] if len(parts) == 1 else "(" + (" ∧ " if isand else " ∨ ").join(parts) + ")"
        return super().cond(e, env)

    def fmt_arg(self, node, a, env):
        c = self.class_const(a)
        if isinstance(c, str):
            self.notes.append("format %s = %r (class constant, line %d)" % (ast.unparse(a), c, self.class_const_info(a)[2][0]))
            return self.cls.lean_fmt(c, "%s:%d" % (self.mod.relpath, node.lineno))
        return super().fmt_arg(node, a, env)

    def as_int(self, v):
        """a bool used as a number: True -> 1, False -> 0"""
        if v.t == BOOL:
            return V("(if %s = true then 1 else 0)" % v.s, INT, 0, 1)
        return v

    def binop(self, node, op, a, b):
        if (a.t == BOOL and b.t in (INT, BOOL)) or (b.t == BOOL and a.t == INT):
            self.notes.append("a bool operand of an arithmetic operator at line %s is the int 1 / 0" % getattr(node, "lineno", "?"))
            return super().binop(node, op, self.as_int(a), self.as_int(b))
        return super().binop(node, op, a, b)

    def values_list(self, node, args, env):
        """the int values of a `pack(…)` call: plain expressions and `*tuple` of a known length -> (lean list text, n)"""
        items, n = [], 0
        for a in args:
            if isinstance(a, ast.Starred):
                v = self.expr(a.value, env)
                if v.t != INTS or v.n is None:
                    self.err(node, "*%s: not a tuple of ints of statically known length" % ast.unparse(a.value))
                items.append(v.s)
                n += v.n
            else:
                v = self.expr(a, env)
                if v.t != INT:
                    self.err(node, "struct pack of a non-int value %s (%s)" % (ast.unparse(a), v.t))
                items.append("[%s]" % v.s)
                n += 1
        if len(items) == 1:
            return items[0] if isinstance(args[0], ast.Starred) else "(%s : List Int)" % items[0], n
        merged, run = [], []
        for a, it in zip(args, items):
            if isinstance(a, ast.Starred):
                if run:
                    merged.append("([%s] : List Int)" % ", ".join(run)); run = []
                merged.append(it)
            else:
                run.append(it[1:-1])
        if run:
            merged.append("([%s] : List Int)" % ", ".join(run))
        return ("(" + " ++ ".join(merged) + ")") if len(merged) > 1 else merged[0], n

    def module_struct(self, name):
        """format string of a module-level `NAME = struct.Struct("<literal>")` that is the ONLY binding of NAME in the
        module (no `global NAME`, no other store, no def / class / import of that name), with `struct` the standard
        module; None otherwise"""
        m = self.mod
        stores, val = 0, None
        for n in ast.walk(m.tree):
            if isinstance(n, ast.Name) and n.id == name and isinstance(n.ctx, (ast.Store, ast.Del)):
                stores += 1
            elif isinstance(n, (ast.FunctionDef, ast.AsyncFunctionDef, ast.ClassDef)) and n.name == name:
                stores += 2
            elif isinstance(n, (ast.Global, ast.Nonlocal)) and name in n.names:
                stores += 2
            elif isinstance(n, (ast.Import, ast.ImportFrom)):
                for a in n.names:
                    if (a.asname or a.name.split(".")[0]) == name or a.name == "*":
                        stores += 2
        if stores != 1:
            return None
        for n in m.tree.body:
            if isinstance(n, ast.Assign) and len(n.targets) == 1 and isinstance(n.targets[0], ast.Name) and n.targets[0].id == name:
                val = n.value
        if not (isinstance(val, ast.Call) and isinstance(val.func, ast.Attribute) and val.func.attr == "Struct"
                and isinstance(val.func.value, ast.Name) and val.func.value.id == "struct" and len(val.args) == 1
                and not val.keywords and isinstance(val.args[0], ast.Constant) and isinstance(val.args[0].value, str)):
            return None
        if not m.imported("struct", "struct"):
            return None
        return val.args[0].value

    def call(self, e, env):
        f = e.func
        if e.keywords:
            self.err(e, "keyword arguments are not in the subset")
        fmt = None
        op = None
        args = list(e.args)
        where = "%s:%d" % (self.mod.relpath, e.lineno)
        if isinstance(f, ast.Attribute) and isinstance(f.value, ast.Attribute) and isinstance(f.value.value, ast.Name) \
           and f.value.value.id == self.selfname and f.value.attr in self.cls.structs:
            fs = self.cls.structs[f.value.attr]
            fmt = self.cls.lean_fmt(fs, where)
            op = f.attr
            self.notes.append("self.%s is struct.Struct(%r) (assigned only in __init__)" % (f.value.attr, fs))
        elif isinstance(f, ast.Attribute) and isinstance(f.value, ast.Name) and f.attr in ("pack", "unpack", "unpack_from") \
                and f.value.id not in env and f.value.id not in self.locals and self.module_struct(f.value.id) is not None:
            # NAME.pack(…) with NAME a module-level `struct.Struct("<literal>")` bound exactly once: it IS that format
            # (the refactoring "hoist the format into a precompiled Struct" keeps the regenerated definition the same)
            fs = self.module_struct(f.value.id)
            fmt = self.cls.lean_fmt(fs, where)
            op = f.attr
            self.notes.append("%s is the module constant struct.Struct(%r) (bound exactly once)" % (f.value.id, fs))
        elif isinstance(f, ast.Attribute) and isinstance(f.value, ast.Name) and f.value.id == "struct" and "struct" not in env \
                and f.attr in ("pack", "unpack", "unpack_from") and args \
                and (f.attr == "unpack_from" or any(isinstance(a, ast.Starred) for a in args) or isinstance(self.class_const(args[0]), str)):
            if not self.mod.imported("struct", "struct"):
                self.err(e, "`struct` is not (only) the standard module in this module")
            fmt = self.fmt_arg(e, args[0], env)
            op = f.attr
            args = args[1:]
        if isinstance(f, ast.Name) and f.id in ("int", "bool") and len(args) == 1 and f.id not in self.locals and f.id not in env \
           and not self.mod.binds(f.id):
            if f.id == "bool" or not self.closed_float(args[0]):
                probe = (list(self.pre), len(self.notes), self.fresh, set(self.names))
                v = self.expr(args[0], env)
                if f.id == "int" and v.t == BOOL:
                    return self.as_int(v)
                if f.id == "bool" and v.t == BOOL:
                    return v
                if f.id == "bool" and v.t == INT:
                    return V("(decide (%s ≠ 0))" % v.s, BOOL)
                if f.id == "bool" and v.t in (BYTES, tr.BYTEARRAY, INTS):
                    return V("(decide (%s ≠ []))" % v.s, BOOL)
                if f.id == "bool":
                    self.err(e, "bool() of %s" % v.t)
                # int() of anything else: let translate.py decide (re-evaluated there)
                self.pre, self.fresh, self.names = probe[0], probe[2], probe[3]
                del self.notes[probe[1]:]
        if isinstance(f, ast.Attribute) and isinstance(f.value, ast.Name) and f.value.id == "struct" and "struct" not in env \
           and f.attr == "calcsize" and len(args) == 1:
            if not self.mod.imported("struct", "struct"):
                self.err(e, "`struct` is not (only) the standard module in this module")
            fs = self.class_const(args[0])
            if not isinstance(fs, str) and isinstance(args[0], ast.Constant) and isinstance(args[0].value, str):
                fs = args[0].value
            if not isinstance(fs, str) or fs[:1] not in "<>!=":
                self.err(e, "struct.calcsize of anything but a constant standard-size format")
            self.cls.lean_fmt(fs, where)
            val = _struct.calcsize(fs)
            self.notes.append("%s is the constant %d (format %r)" % (ast.unparse(e), val, fs))
            return V(tr.lit(val), INT, val, val)
        if fmt is None:
            return super().call(e, env)
        ftext, n = fmt
        if n is None:
            self.err(e, "struct call with a computed count")
        if op == "pack":
            vals, k = self.values_list(e, args, env)
            if k != n:
                self.err(e, "struct pack: %d values for %d codes (struct.error)" % (k, n))
            return self.hoist(e, "Py.structPackI %s %s" % (ftext, vals), BYTES)
        if op in ("unpack", "unpack_from"):
            if not args or len(args) > (2 if op == "unpack_from" else 1):
                self.err(e, "struct.%s: wrong number of arguments" % op)
            b = self.expr(args[0], env)
            if b.t not in (BYTES, tr.BYTEARRAY):
                self.err(e, "struct.%s of %s" % (op, b.t))
            if op == "unpack":
                return self.hoist(e, "Py.structUnpackI %s %s" % (ftext, b.s), INTS, n=n, elo=0)
            off = V("0", INT, 0, 0)
            if len(args) == 2 and isinstance(args[1], ast.UnaryOp) and isinstance(args[1].op, ast.USub) \
               and isinstance(args[1].operand, ast.Constant) and isinstance(args[1].operand.value, int) \
               and not isinstance(args[1].operand.value, bool) and args[1].operand.value > 0:
                # a negative constant offset counts from the end; struct.error when it reaches before the start
                return self.hoist(e, "Py.structUnpackFromEndI %s %s %d" % (ftext, b.s, args[1].operand.value), INTS, n=n, elo=0)
            if len(args) == 2:
                off = self.expr(args[1], env)
            if off.t != INT or off.lo is None or off.lo < 0:
                self.err(e, "struct.unpack_from: cannot show the offset is >= 0 (a negative offset counts from the end)")
            return self.hoist(e, "Py.structUnpackFromI %s %s (Int.toNat %s)" % (ftext, b.s, off.s), INTS, n=n, elo=0)
        self.err(e, "Struct.%s is not in the subset" % op)

    def subscript(self, e, env):
        sl = e.slice
        if isinstance(sl, ast.Slice) and sl.step is None and isinstance(sl.upper, ast.UnaryOp) and isinstance(sl.upper.op, ast.USub) \
           and isinstance(sl.upper.operand, ast.Constant) and isinstance(sl.upper.operand.value, int) \
           and not isinstance(sl.upper.operand.value, bool) and sl.upper.operand.value > 0:
            # b[lo:-K]: the upper bound counts from the end, clamped at 0
            seq = self.expr(e.value, env)
            if seq.t not in (BYTES, tr.BYTEARRAY, INTS):
                self.err(e, "subscript of %s" % seq.t)
            lo = self.expr(sl.lower, env) if sl.lower is not None else V("0", INT, 0, 0)
            if lo.t != INT or lo.lo is None or lo.lo < 0:
                self.err(e, "slice bound %s: cannot show it is >= 0 (negative bounds count from the end)" % lo.s)
            return V("(Py.sliceEndI %s %s %d)" % (seq.s, lo.s, sl.upper.operand.value), seq.t, elo=seq.elo, ehi=seq.ehi)
        return super().subscript(e, env)

    # ---- statements
    def target_key(self, t, env):
        if isinstance(t, ast.Attribute) and isinstance(t.value, ast.Name) and t.value.id == self.selfname:
            if t.attr in self.cls.opaque or t.attr in self.cls.getters or t.attr in self.cls.setters:
                if self.cls.setters.get(t.attr) is None:
                    self.err(t, "assignment through the property %s, which has no setter / a setter that does more than "
                                "store one attribute: not in the subset" % t.attr)
                self.notes.append("self.%s = … goes through the property setter, which stores self.%s" % (t.attr, self.cls.setters[t.attr]))
                t = ast.copy_location(ast.Attribute(value=t.value, attr=self.cls.setters[t.attr], ctx=t.ctx), t)
            key = self.selfname + "." + t.attr
            if key not in env:
                self.err(t, "assignment to attribute %s, which is not carried by the object structure (%s)" % (
                    t.attr, dict(self.cls.not_carried).get(t.attr, "not assigned at the top level of __init__")))
            return key
        if isinstance(t, ast.Attribute):
            self.err(t, "assignment to an attribute of another object (%s) is not in the subset" % ast.unparse(t))
        return super().target_key(t, env)

    def exc_args_ok(self, s, call, env):
        for a in call.args:
            if isinstance(a, ast.Constant):
                continue
            if isinstance(a, ast.JoinedStr):
                # f"…{e}…": every formatted value an int expression that cannot raise, no conversion, at most an int format spec
                self.guard += 1
                try:
                    for part in a.values:
                        if isinstance(part, ast.Constant):
                            continue
                        spec_ok = part.format_spec is None or (
                            len(part.format_spec.values) == 1 and isinstance(part.format_spec.values[0], ast.Constant)
                            and str(part.format_spec.values[0].value)[-1:] in "dxXobn")
                        if not isinstance(part, ast.FormattedValue) or part.conversion != -1 or not spec_ok:
                            self.err(s, "f-string in an exception message with a conversion / non-int format spec")
                        v = self.expr(part.value, env)
                        if v.t != INT:
                            self.err(s, "exception message formats %s of type %s: only ints are in the subset (formatting an int "
                                        "cannot raise)" % (ast.unparse(part.value), v.t))
                finally:
                    self.guard -= 1
                self.notes.append("the message of the exception at line %d is not modelled (its arguments are ints; formatting "
                                  "them cannot raise)" % s.lineno)
                continue
            ok = isinstance(a, ast.Call) and isinstance(a.func, ast.Attribute) and a.func.attr == "format" \
                and isinstance(a.func.value, ast.Constant) and isinstance(a.func.value.value, str) and not a.keywords
            if not ok:
                self.err(s, "exception argument %s: only constants and CONSTANT.format(int expressions) are in the subset" % ast.unparse(a)[:50])
            self.guard += 1          # nothing that can raise inside the arguments
            try:
                for x in a.args:
                    if isinstance(x, ast.Constant) and isinstance(x.value, (str, int)):
                        continue
                    v = self.expr(x, env)
                    if v.t != INT:
                        self.err(s, "exception message formats %s of type %s: only ints are in the subset (formatting an int "
                                    "cannot raise)" % (ast.unparse(x), v.t))
            finally:
                self.guard -= 1
            try:
                fields = list(string.Formatter().parse(a.func.value.value))
                nfields = sum(1 for _, fn, _, _ in fields if fn is not None)
                if nfields > len(a.args) or any(fn not in ("",) and not (fn or "").isdigit() for _, fn, _, _ in fields if fn is not None):
                    self.err(s, "exception message template %r does not match its arguments" % a.func.value.value)
                for _, fn, spec_, conv in fields:
                    if fn is not None and spec_ and spec_[-1] not in "dxXobn" and not spec_.lstrip("#0").isdigit():
                        self.err(s, "format spec %r in an exception message is not in the subset" % spec_)
            except ValueError as ex:
                self.err(s, "exception message template: %s" % ex)
            self.notes.append("the message of the exception at line %d is not modelled (its arguments are ints; formatting "
                              "them cannot raise)" % s.lineno)

    def unroll(self, s):
        """`for v in Cls.NAMES: body` over a constant tuple of attribute names -> the unrolled statements, or None"""
        if not isinstance(s, ast.For) or s.orelse or not isinstance(s.target, ast.Name):
            return None
        names = self.class_const(s.iter)
        if isinstance(s.iter, ast.Attribute) and isinstance(s.iter.value, ast.Name) and s.iter.value.id == self.selfname \
           and s.iter.attr in self.cls.tuple_attrs:
            names = self.cls.tuple_attrs[s.iter.attr][0]
            self.notes.append("self.%s is %s = %r: assigned only in %s.__init__ (an object of exactly this class; a subclass "
                              "that re-assigns it in its own __init__ is a different class)" % (
                                  s.iter.attr, self.cls.tuple_attrs[s.iter.attr][1], names, self.cls.name))
        if isinstance(s.iter, (ast.Tuple, ast.List)) and s.iter.elts \
           and all(isinstance(x, ast.Constant) and isinstance(x.value, str) for x in s.iter.elts):
            names = tuple(x.value for x in s.iter.elts)
        if not isinstance(names, tuple):
            return None
        if not any(isinstance(n, ast.Call) and isinstance(n.func, ast.Name) and n.func.id == "getattr" for st in s.body for n in ast.walk(st)):
            return None
        var = s.target.id
        for n in ast.walk(self.node):
            if isinstance(n, ast.Name) and n.id == var and not any(n is x for x in ast.walk(s)):
                self.err(s, "loop variable %s of an unrolled loop is used outside the loop" % var)
        for st in s.body:
            for n in ast.walk(st):
                if isinstance(n, ast.Name) and n.id == var and isinstance(n.ctx, (ast.Store, ast.Del)):
                    self.err(s, "the unrolled loop assigns its loop variable")
                if isinstance(n, (ast.Break, ast.Continue)):
                    self.err(n, "break / continue inside an unrolled loop is not in the subset")
        out = []
        import copy
        for nm in names:
            if nm not in dict(self.cls.fields) and self.cls.getters.get(nm) not in dict(self.cls.fields):
                self.err(s, "%s names %r, which is not a carried attribute (getattr could raise AttributeError)" % (
                    ast.unparse(s.iter), nm))
            for st in s.body:
                out.append(ast.fix_missing_locations(Unroll(var, nm).visit(copy.deepcopy(st))))
        self.notes.append("the loop at line %d over %s = %r is unrolled; getattr(x, %s) is the named attribute" % (
            s.lineno, ast.unparse(s.iter), names, var))
        return out

    def block(self, stmts, env, k):
        if not stmts:
            return k(env)
        s, rest = stmts[0], stmts[1:]
        self.cur_env = env
        if isinstance(s, ast.Return):
            if self.loop:
                self.err(s, "return inside a loop is not in the subset")
            if s.value is None or (isinstance(s.value, ast.Constant) and s.value.value is None):
                self.set_ret("Unit", s)
                return self.leave(env, ".ok ()")
            if isinstance(s.value, ast.Tuple):
                self.err(s, "returning a tuple is not in the subset")
            v = self.expr(s.value, env)
            self.set_ret(self.ltype(v.t), s)
            return self.flush(self.leave(env, ".ok %s" % v.s))
        if isinstance(s, ast.Raise):
            if self.loop:
                self.err(s, "raise inside a loop is not in the subset")
            if s.exc is None or s.cause is not None:
                self.err(s, "re-raise / raise from is not in the subset")
            ex = s.exc.func if isinstance(s.exc, ast.Call) else s.exc
            if not isinstance(ex, ast.Name) or ex.id not in tr.EXC:
                self.err(s, "raise of %s is not in the subset" % ast.unparse(ex))
            if ex.id in self.locals or self.mod.binds(ex.id):
                self.err(s, "the exception name %s is re-bound in this function or module" % ex.id)
            if isinstance(s.exc, ast.Call):
                if s.exc.keywords:
                    self.err(s, "exception with keyword arguments")
                self.exc_args_ok(s, s.exc, env)
            return self.leave(env, ".error %s" % tr.EXC[ex.id])
        if isinstance(s, ast.For):
            un = self.unroll(s)
            if un is not None:
                return self.block(un + list(rest), env, k)
        if isinstance(s, ast.Expr) and isinstance(s.value, ast.Call) and self.is_logging(s.value, env):
            self.notes.append("the logging call at line %d is not modelled (no effect on the object or the result)" % s.lineno)
            return self.block(list(rest), env, k)
        return super().block(stmts, env, k)

    def is_logging(self, c, env):
        """`NAME.debug/info/warning/error/critical(CONSTANT…)` where NAME is bound exactly once at module level, by
        `NAME = logging.getLogger(…)` (the logging module imported as such)"""
        f = c.func
        if not (isinstance(f, ast.Attribute) and isinstance(f.value, ast.Name) and f.attr in
                ("debug", "info", "warning", "error", "critical") and f.value.id not in env and f.value.id not in self.locals):
            return False
        nm = f.value.id
        binds = [n for n in ast.walk(self.mod.tree) if isinstance(n, ast.Name) and n.id == nm and isinstance(n.ctx, (ast.Store, ast.Del))]
        top = [n for n in self.mod.tree.body if isinstance(n, ast.Assign) and len(n.targets) == 1
               and isinstance(n.targets[0], ast.Name) and n.targets[0].id == nm]
        if len(binds) != 1 or len(top) != 1 or not self.mod.imported("logging", "logging"):
            return False
        v = top[0].value
        if not (isinstance(v, ast.Call) and isinstance(v.func, ast.Attribute) and isinstance(v.func.value, ast.Name)
                and v.func.value.id == "logging" and v.func.attr == "getLogger"):
            return False
        if c.keywords or not all(isinstance(a, ast.Constant) for a in c.args):
            self.err(c, "logging call with non-constant arguments (evaluating them could raise) is not in the subset")
        return True

    def if_stmt(self, s, rest, env, k):
        saved_pre, saved_notes = list(self.pre), len(self.notes)
        c = self.cond(s.test, env)
        if c in ("True", "False"):
            pre = self.flush("")
            live, dead = (s.body, s.orelse) if c == "True" else (s.orelse, s.body)
            if dead:
                self.notes.append("the branch at line %d is unreachable (its test is constant, see the notes above) and is "
                                  "not translated" % dead[0].lineno)
            return pre + self.block(list(live) + list(rest), env, k)
        self.pre = saved_pre
        del self.notes[saved_notes:]
        if self.has_exit(s.body) or self.has_exit(s.orelse):
            return super().if_stmt(s, rest, env, k)
        self.nomonad += 1
        try:
            # Fn.if_stmt does not translate the branches of an `if` that assigns nothing; translate them here once, for
            # validation only (a statement outside the subset must be refused, not dropped)
            keep = (list(self.pre), self.cur_env, self.rettype)
            for br in (s.body, s.orelse):
                self.block(list(br), dict(env), lambda e2: "")
            self.pre, self.cur_env, self.rettype = keep
            depth = self.nomonad - 1
            def k2(e2):
                # the statements after the `if` are outside it again
                inner, self.nomonad = self.nomonad, depth
                try:
                    return self.block(list(rest), e2, k)
                finally:
                    self.nomonad = inner
            return super().if_stmt(s, [], env, k2)
        finally:
            self.nomonad -= 1


def translate_method(mod, cls, mspec):
    """mspec keys: func (method name), name (lean def name, default = func), params {name: 'int'|'bytes'|'bool'|'self'},
    prop, theorem"""
    node = cls.methods.get(mspec["func"])
    if node is None:
        raise TranslationError("%s: class %s has no method %s" % (mod.relpath, cls.name, mspec["func"]))
    a = node.args
    if a.vararg or a.kwarg or a.kwonlyargs or a.posonlyargs:
        raise TranslationError("%s.%s: *args / **kwargs / keyword-only parameters are not in the subset" % (cls.name, mspec["func"]))
    if node.decorator_list:
        raise TranslationError("%s:%d %s.%s: decorated methods are not in the subset" % (mod.relpath, node.lineno, cls.name, mspec["func"]))
    if not a.args:
        raise TranslationError("%s.%s has no self parameter" % (cls.name, mspec["func"]))
    selfname = a.args[0].arg
    lean_name = mspec.get("name", mspec["func"])
    spec = dict(mspec, name="%s.%s" % (cls.name, mspec["func"]))
    fn = MFn(mod, node, spec, cls, selfname)
    if selfname in {n.id for n in ast.walk(node) if isinstance(n, ast.Name) and isinstance(n.ctx, (ast.Store, ast.Del))}:
        fn.err(node, "the method re-binds %s" % selfname)
    for n in ast.walk(node):
        if isinstance(n, ast.Name) and n.id == selfname and isinstance(n.ctx, ast.Load):
            pass
    # `self` may only be used as `self.<attr>` (never passed on, returned or compared: identity is not modelled)
    attr_bases = {id(n.value) for n in ast.walk(node) if isinstance(n, ast.Attribute)}
    getattr_args = {id(n.args[0]) for n in ast.walk(node) if isinstance(n, ast.Call) and isinstance(n.func, ast.Name)
                    and n.func.id == "getattr" and n.args}
    isinst_args = {id(n.args[0]) for n in ast.walk(node) if isinstance(n, ast.Call) and isinstance(n.func, ast.Name)
                   and n.func.id == "isinstance" and n.args}
    ptypes = dict(mspec.get("params", {}))
    objparams = [p for p, t in ptypes.items() if t == "self"] + [selfname]
    for n in ast.walk(node):
        if isinstance(n, ast.Name) and n.id in objparams and id(n) not in attr_bases and id(n) not in getattr_args \
           and id(n) not in isinst_args:
            fn.err(n, "the object %s is used as a value (not as %s.<attribute>): not in the subset" % (n.id, n.id))
    env = {selfname: V("o", "rec", rec=cls.name)}
    binders = ["(o : Obj)"]
    for f, t in cls.fields:
        env[selfname + "." + f] = V("o." + tr.lname(f), t)
    for x in a.args[1:]:
        p = x.arg
        t = ptypes.get(p)
        if t is None and isinstance(x.annotation, ast.Name) and x.annotation.id in TYPES:
            t = x.annotation.id
        if t is None:
            raise TranslationError("%s.%s: no type for parameter %s in the METHODS table" % (cls.name, mspec["func"], p))
        if t == "self":
            env[p] = V(tr.lname(p), "rec", rec=cls.name)
            for f, ft in cls.fields:
                env[p + "." + f] = V("%s.%s" % (tr.lname(p), tr.lname(f)), ft)
            binders.append("(%s : Obj)" % tr.lname(p))
            fn.notes.append("parameter %s is declared to be a %s (an Obj); other operand types are outside this translation" % (p, cls.name))
        else:
            env[p] = V(tr.lname(p), TYPES[t])
            binders.append("(%s : %s)" % (tr.lname(p), TYPES[t]))
    def fall(e2):
        fn.set_ret("Unit", node)
        return fn.leave(e2, ".ok ()")
    text = fn.block(list(node.body), env, fall)
    rt = fn.rettype or "Unit"
    src = mod.segment(node).replace("-/", "- /").replace("/-", "/ -")
    doc = "/-- `%s.%s` of %s, lines %d-%d — the whole method, state-passing: (object when the method leaves, result).\n" % (
        cls.name, mspec["func"], mod.relpath, node.lineno, node.end_lineno)
    for nt in dict.fromkeys(fn.notes):
        doc += "    note: %s\n" % nt
    doc += "```python\n%s\n```\n-/" % src
    lean = "%s\ndef %s %s : Obj × R (%s) :=\n%s" % (doc, tr.lname(lean_name), " ".join(binders), rt, tr.indent(text))
    return lean_name, lean, rt

# ------------------------------------------------------------------------------------------------ one class -> one file

def translate_class(spec):
    """-> (lean text of the module, [(method spec, ok, lean name | error)])"""
    mod = tr.Module(spec["file"], "Cls." + spec["lean"])
    cls = ClassInfo(mod, spec["cls"], spec)
    results, defs = [], []
    used = set()
    # module-level functions of the same file that translate.py translates (SRC tables) and the methods call
    imports = []
    if spec.get("uses"):
        tr.load_tables()
    for lean_mod, func in spec.get("uses", []):
        src = [x for x in tr.SRC if x["lean"] == lean_mod and x["func"] == func and x["file"] == spec["file"]
               and "prefix_upto" not in x and "from_var" not in x]
        if len(src) != 1:
            raise TranslationError("%s: `uses` names %s.%s, which is not (exactly once) in the SRC tables for this file" % (
                mod.relpath, lean_mod, func))
        name, _ = tr.translate_function(mod, src[0])
        mod.funcs[func] = dict(mod.funcs[func], lean="Gen.Src.%s.%s" % (lean_mod, name))
        if "Acra.Gen.Src." + lean_mod not in imports:
            imports.append("Acra.Gen.Src." + lean_mod)
    for m in spec["methods"]:
        node = cls.methods.get(m["func"])
        if node is not None:
            for n in ast.walk(node):
                if isinstance(n, ast.Attribute):
                    used.add(n.attr)
                    used.add(cls.getters.get(n.attr))
                    used.add(cls.setters.get(n.attr))
    # underscore attributes are carried only when a translated method uses them
    dropped = [(f, t) for f, t in cls.fields if f.startswith("_") and f not in used]
    cls.fields = [(f, t) for f, t in cls.fields if (f, t) not in dropped]
    for f, _ in dropped:
        cls.not_carried.append((f, "underscore attribute not used by a translated method"))
    if not cls.fields:
        raise TranslationError("%s: class %s: __init__ assigns no attribute of type int / bytes / bool" % (mod.relpath, cls.name))
    for m in spec["methods"]:
        try:
            name, lean, rt = translate_method(mod, cls, m)
            defs.append(lean)
            results.append((m, True, name))
        except TranslationError as e:
            results.append((m, False, str(e)))
        except RecursionError as e:
            results.append((m, False, repr(e)))
    ns = "Acra.Gen.Src.Cls.%s" % spec["lean"]
    lines = ["-- GENERATED by harness/translate_methods.py from %s (class %s) — do not edit" % (spec["file"], spec["cls"]),
             "import Acra.Py.MethOps"] + ["import " + i for i in imports] + [
             "namespace %s" % ns,
             "open Acra Acra.Py",
             "set_option linter.unusedVariables false", ""]
    for owner, attr, lean, ln, seg, val in cls.used_consts:
        lines.append("/-- constant of class %s, line %d: `%s` -/\ndef %s : Int := %s\n" % (
            owner, ln, seg.replace("-/", "- /").replace("/-", "/ -"), lean, tr.lit(val)))
    init = cls.methods["__init__"]
    doc = ("/-- The attributes `%s.__init__` (lines %d-%d) assigns at its top level, as far as they hold ints / bytes / bools.\n"
           "    TYPING ASSUMPTION: every field holds a value of its type whenever a translated method runs (an `int`, a\n"
           "    `bytes`, a `bool`; never `None`) — the assumption the hand-written model makes by using `Nat` / `Bytes` fields.\n"
           % (cls.name, init.lineno, init.end_lineno))
    for nt in dict.fromkeys(cls.notes):
        doc += "    note: %s\n" % nt
    for f, why in cls.not_carried:
        doc += "    not carried: %s (%s)\n" % (f, why)
    for f, fs in cls.structs.items():
        doc += "    not carried: %s = struct.Struct(%r), a constant format (assigned only in __init__)\n" % (f, fs)
    for f, (tv, txt) in cls.tuple_attrs.items():
        doc += "    not carried: %s = %s = %r, a constant tuple of attribute names (assigned only in __init__)\n" % (f, txt, tv)
    doc += "-/"
    lines.append(doc)
    lines.append("structure Obj where")
    for f, t in cls.fields:
        lines.append("  %s : %s" % (tr.lname(f), t))
    lines.append("  deriving Repr, DecidableEq")
    lines.append("")
    for d in defs:
        lines.append(d)
        lines.append("")
    lines.append("end %s" % ns)
    return "\n".join(lines) + "\n", results, cls

# ------------------------------------------------------------------------------------------------ driver

METHODS = []

def load_tables():
    del METHODS[:]
    d = os.path.join(os.path.dirname(os.path.abspath(__file__)), "extract_tables")
    for fn in sorted(os.listdir(d)):
        if fn.endswith(".py") and not fn.startswith("_"):
            ns = {}
            exec(compile(open(os.path.join(d, fn)).read(), fn, "exec"), ns)
            METHODS.extend(ns.get("METHODS", []))

def _rep(spec, m, prop=None, theorem=None):
    prop, theorem = prop or m.get("prop"), theorem or m.get("theorem")
    return {"python": "%s:%s.%s" % (spec["file"], spec["cls"], m["func"]), "property": prop,
            "tie_theorem": ("Acra.Props.%s.%s" % (prop, theorem)) if theorem else None,
            "part": "whole method (state-passing: object in -> object out, result)"}

def _reps(spec, m, **kw):
    """one report entry for the method's anchor property, one for each further (property, theorem) of `also`"""
    return [dict(_rep(spec, m), **kw)] + [dict(_rep(spec, m, p, t), **kw) for p, t in m.get("also", [])]

def generate():
    """translate every class of the METHODS tables; returns (errors, changed lean modules, report).  A class file is
    rewritten only when its text changes; when a method cannot be translated the stale file is left in place and the error
    is reported (check.py treats that as a broken tie), exactly like translate.generate()."""
    load_tables()
    errors, changed, report = [], [], []
    os.makedirs(OUT, exist_ok=True)
    for spec in METHODS:
        try:
            text, results, _ = translate_class(spec)
        except TranslationError as e:
            errors.append("Src.Cls.%s: %s" % (spec["lean"], e))
            for m in spec["methods"]:
                report += _reps(spec, m, translated=False, error=str(e))
            continue
        except Exception as e:
            errors.append("Src.Cls.%s: cannot translate %s: %r" % (spec["lean"], spec["file"], e))
            for m in spec["methods"]:
                report += _reps(spec, m, translated=False, error=repr(e))
            continue
        ok = True
        for m, good, what in results:
            if good:
                report += _reps(spec, m, translated=True, lean="Acra.Gen.Src.Cls.%s.%s" % (spec["lean"], what))
            else:
                ok = False
                errors.append("Src.Cls.%s.%s: %s" % (spec["lean"], m["func"], what))
                report += _reps(spec, m, translated=False, error=what)
        if not ok:
            continue
        path = os.path.join(OUT, spec["lean"] + ".lean")
        old = open(path).read() if os.path.exists(path) else None
        if old != text:
            with open(path, "w") as f:
                f.write(text)
            changed.append("Src.Cls." + spec["lean"])
    tr.LAST_REPORT.extend(report)
    return errors, changed, report

def main():
    errors, changed, report = generate()
    print(json.dumps({"errors": errors, "changed": changed, "translated": [r["python"] for r in report if r["translated"]]}, indent=1))
    return 1 if errors else 0

if __name__ == "__main__":
    sys.exit(main())
