#!/usr/bin/env python3
"""
Source translator part of the tie: Python `ast` -> Lean definitions for the library's PURE integer / bytes
helper functions.  On every run the current source of each function listed in the `SRC` tables
(`harness/extract_tables/*.py`) is read from $ACRA_REPO (default /repo), translated, and written to
`lean/Acra/Gen/Src/<Module>.lean` (namespace `Acra.Gen.Src.<Module>`).  Theorems
`Acra.Props.Cxx.src_*` (files `lean/Acra/Props/Cxx/SrcTie.lean`) state that the regenerated definition
equals the hand-written model function for ALL inputs; they are proof obligations of the property the
function is anchored in.  Editing the Python function changes the regenerated definition, and the
obligation no longer checks.

The translator accepts a RESTRICTED, EXPLICITLY CHECKED subset.  Anything else is a `TranslationError`
that names the construct and its line; nothing is approximated silently.  The subset (see notes/tie.md
for the grammar) and its meaning (the definitions of `lean/Acra/Py/IntOps.lean`):

  types        int -> Int, bool -> Bool, bytes/bytearray -> Bytes (= List UInt8), tuple/list of ints -> List Int,
               objects whose attributes are ints / int lists -> one parameter per attribute (`self_x`)
  expressions  int / bool / bytes literals, names, module-level int constants and int tables,
               + - * // % & | ^ << >> ~ unary -, comparisons (chained too), and / or / not on conditions,
               conditional expressions, len(), int() of an int, b[i], b[i:j], t[i], sum(), reduce(lambda),
               struct.pack / struct.unpack with a literal format (or "<{}H".format(n) / f"<{n}B"),
               bytes + bytes, [c] * n, calls of other translated functions, constructor calls of classes
               whose __init__ only stores its arguments, constant float expressions inside int() that
               CPython evaluates to an exact integer (int(1e9)), isinstance(x, C) for a parameter declared C.
  statements   assignment, augmented assignment, tuple assignment, t[i] = v, if / elif / else, return, raise,
               for v in range(...) / for v in <bytes> (a fold; state = the variables assigned in the body
               that are live before the loop), pass, docstrings.
  exceptions   a function that can raise returns `R T` (= Except Err T): raise X(...), struct.error,
               reduce() of an empty sequence, an index the translator cannot show to be in range.
               Operations whose exceptional case the translator can EXCLUDE by its interval analysis are
               emitted as total functions: shifts (count >= 0), // and % (divisor a non-zero constant),
               seq[i] with 0 <= i < len.  If it can neither exclude nor express the case, it refuses.

Trusted: this file (a wrong translation shows up as a tie theorem that cannot be proved, or - if the
hand model has the same mistake - as a disagreement of the differential check, which compares the model
with the running code).
"""
import ast, os, sys, re, json

VERIF = os.path.dirname(os.path.dirname(os.path.abspath(__file__)))
REPO = os.environ.get("ACRA_REPO", "/repo")
OUT = os.path.join(VERIF, "lean", "Acra", "Gen", "Src")

def _extract():
    try:
        from . import extract as ex
    except ImportError:          # run as a script: harness/ is sys.path[0]
        import extract as ex
    return ex

class TranslationError(Exception):
    pass

class NeedMonad(Exception):
    """raised while translating in pure mode when a construct that can raise is met"""
    pass

INT, BOOL, BYTES, INTS = "Int", "Bool", "Bytes", "List Int"
BYTEARRAY = "bytearray"  # a mutable byte sequence; Lean type Bytes
DEC = "Decimal"          # an integer-valued decimal.Decimal whose exactness the translator has shown; Lean type Int
DEC_LIMIT = 10 ** 28     # default context: 28 significant digits
FLT = "float"            # an integer-valued binary64 float whose exact value the translator knows to be the Int term
FLT_LIMIT = 2 ** 53      # every integer of smaller magnitude is a binary64 value
LEAN_KEYWORDS = {"at", "from", "fun", "let", "in", "do", "then", "else", "if", "end", "open", "def", "theorem",
                 "match", "with", "have", "show", "by", "where", "namespace", "section", "import", "instance",
                 "class", "structure", "inductive", "mutual", "variable", "universe", "Type", "Prop", "Sort",
                 "deriving", "extends", "for", "return", "try", "catch", "finally", "unless", "macro", "syntax",
                 "notation", "infix", "prefix", "postfix", "axiom", "example", "abbrev", "opaque", "private",
                 "protected", "partial", "unsafe", "noncomputable", "using", "calc", "nomatch", "nofun", "mut",
                 "break", "continue", "export", "set_option", "attribute", "local", "scoped", "λ", "Σ", "Π",
                 "obtain", "exists", "forall", "true", "false", "not", "and", "or", "matches", "suffices", "infixl", "infixr",
                 "termination_by", "decreasing_by", "elab", "declare_syntax_cat", "omit", "include"}
EXC = {"Exception": ".generic", "ValueError": ".value", "TypeError": ".type", "IndexError": ".index",
       "KeyError": ".key", "NotImplementedError": ".notImplemented", "OverflowError": ".overflow",
       "ZeroDivisionError": ".zeroDiv", "AttributeError": ".attribute", "OSError": ".os"}

def lname(n):
    return n + "'" if n in LEAN_KEYWORDS else n

def lit(v):
    return str(v) if v >= 0 else "(%d)" % v

class V:
    """a translated expression: Lean text, type, integer interval [lo, hi] (None = unknown), known list
    length n, names of sequences whose length is a strict upper bound (ltlen), element interval for lists"""
    def __init__(self, s, t, lo=None, hi=None, n=None, ltlen=(), elo=None, ehi=None, rec=None):
        self.s, self.t, self.lo, self.hi, self.n, self.ltlen = s, t, lo, hi, n, frozenset(ltlen)
        self.elo, self.ehi, self.rec = elo, ehi, rec
        self.static = None            # a module-level Bool constant whose value CPython has computed (PY3)
    def widen(self):
        return V(self.s, self.t, None, None, self.n, (), None, None, self.rec)

def _min(*xs):
    return None if any(x is None for x in xs) else min(xs)
def _max(*xs):
    return None if any(x is None for x in xs) else max(xs)
def union(a, b, s):
    if a.t != b.t:
        raise TranslationError("branches give different types %s / %s" % (a.t, b.t))
    return V(s, a.t, _min(a.lo, b.lo), _max(a.hi, b.hi), a.n if a.n == b.n else None, a.ltlen & b.ltlen,
             _min(a.elo, b.elo), _max(a.ehi, b.ehi), a.rec)

# ------------------------------------------------------------------------------------------------ module

class Module:
    """one Python source file: its AST, its module-level constants, the functions translated so far"""
    def __init__(self, relpath, lean_mod):
        self.relpath, self.lean_mod = relpath, lean_mod
        self.path = os.path.join(REPO, relpath)
        raw = open(self.path, "rb").read().decode("utf-8")
        self.src = raw.replace("\r\n", "\n")
        self.tree = ast.parse(self.src)
        self.consts = {}          # name -> (lean text of def, V)
        self.const_order = []
        self.funcs = {}           # python qualname -> signature dict
        self.defs = []            # lean text of function defs, in order

    def find(self, qualname):
        body, node = self.tree.body, None
        for p in qualname.split("."):
            node = None
            for n in body:
                if isinstance(n, (ast.FunctionDef, ast.ClassDef)) and n.name == p:
                    node = n          # the LAST definition of a name wins, as in Python
            if node is None:
                raise TranslationError("%s: no definition of %s" % (self.relpath, qualname))
            body = node.body
        return node

    def segment(self, node):
        return ast.get_source_segment(self.src, node) or ""

    def binds(self, name):
        """does the module bind `name` at top level (def / class / assignment / import)?"""
        for n in self.tree.body:
            if isinstance(n, (ast.FunctionDef, ast.ClassDef, ast.AsyncFunctionDef)) and n.name == name:
                return True
            if isinstance(n, (ast.Import, ast.ImportFrom)):
                for a in n.names:
                    if (a.asname or a.name.split(".")[0]) == name or a.name == "*":
                        return True
            if isinstance(n, (ast.Assign, ast.AugAssign, ast.AnnAssign, ast.For, ast.With, ast.If, ast.Try, ast.While)):
                for x in ast.walk(n):
                    if isinstance(x, ast.Name) and x.id == name and isinstance(x.ctx, ast.Store):
                        return True
        return False

    def imported(self, name, module, attr=None):
        """is the module-level name `name` bound exactly once, by `import module` (attr None) or
        `from module import attr`?"""
        hits = 0
        good = False
        for n in ast.walk(self.tree):
            if isinstance(n, ast.Import):
                for a in n.names:
                    if (a.asname or a.name.split(".")[0]) == name:
                        hits += 1
                        good = attr is None and a.name == module and a.asname in (None, name)
            elif isinstance(n, ast.ImportFrom):
                for a in n.names:
                    if (a.asname or a.name) == name:
                        hits += 1
                        good = attr is not None and n.module == module and a.name == attr
            elif isinstance(n, (ast.FunctionDef, ast.ClassDef)) and n.name == name and n in self.tree.body:
                hits += 1
            elif isinstance(n, ast.Name) and n.id == name and isinstance(n.ctx, ast.Store):
                hits += 1
        return hits == 1 and good

    def version_test(self, e):
        """`sys.version_info <cmp> (INT, …)` where `sys` is exactly the standard module"""
        return (isinstance(e, ast.Compare) and len(e.ops) == 1 and isinstance(e.ops[0], (ast.Gt, ast.GtE, ast.Lt, ast.LtE))
                and isinstance(e.left, ast.Attribute) and e.left.attr == "version_info"
                and isinstance(e.left.value, ast.Name) and e.left.value.id == "sys" and self.imported("sys", "sys")
                and isinstance(e.comparators[0], ast.Tuple) and e.comparators[0].elts
                and all(isinstance(x, ast.Constant) and type(x.value) is int for x in e.comparators[0].elts))

    def constant(self, name, where):
        """module-level `NAME = <int expression | list of int expressions>`; exactly one binding"""
        if name in self.consts:
            return self.consts[name][1]
        binds = []
        def scope_walk(nodes):
            """the nodes of the module scope: compound statements are entered, function / class bodies are not"""
            for n in nodes:
                yield n
                if isinstance(n, (ast.FunctionDef, ast.AsyncFunctionDef, ast.ClassDef, ast.Lambda)):
                    continue
                yield from scope_walk(ast.iter_child_nodes(n))
        for n in scope_walk(self.tree.body):
            if isinstance(n, ast.Name) and n.id == name and isinstance(n.ctx, (ast.Store, ast.Del)):
                binds.append(n)
            if isinstance(n, (ast.FunctionDef, ast.AsyncFunctionDef, ast.ClassDef)) and n.name == name:
                binds.append(n)
            if isinstance(n, (ast.Import, ast.ImportFrom)):
                for a in n.names:
                    if (a.asname or a.name.split(".")[0]) == name or a.name == "*":
                        binds.append(n)
        for n in ast.walk(self.tree):
            if isinstance(n, (ast.Global, ast.Nonlocal)) and name in n.names:
                binds.append(n)
        top = [n for n in self.tree.body if isinstance(n, ast.Assign) and len(n.targets) == 1
               and isinstance(n.targets[0], ast.Name) and n.targets[0].id == name]
        if not top:
            raise TranslationError("%s: name %r is neither a local, a parameter nor a module-level constant" % (where, name))
        if len(binds) != 1 or binds[0] is not top[0].targets[0]:
            raise TranslationError("%s: module-level name %r is bound more than once (%d bindings)" % (where, name, len(binds)))
        node = top[0]
        for n in ast.walk(self.tree):
            if isinstance(n, ast.Subscript) and isinstance(n.value, ast.Name) and n.value.id == name \
               and isinstance(n.ctx, (ast.Store, ast.Del)):
                raise TranslationError("%s: module-level %r is item-assigned at line %d: not a constant" % (where, name, n.lineno))
            if isinstance(n, ast.Attribute) and isinstance(n.value, ast.Name) and n.value.id == name:
                raise TranslationError("%s: a method / attribute of module-level %r is used at line %d (it may be mutated): "
                                       "not a constant" % (where, name, n.lineno))
        if self.version_test(node.value):
            # `sys.version_info <cmp> (ints…)`: a closed expression, evaluated by the CPython that runs the translator
            import sys as _sys
            val = bool(eval(compile(ast.Expression(node.value), "<const>", "eval"), {"__builtins__": {}, "sys": _sys}))
            text = "/-- module constant, line %d: `%s` — evaluated by the CPython running the translator (%d.%d): %s -/\ndef %s : Bool := %s" % (
                node.lineno, self.segment(node).replace("\n", " "), _sys.version_info[0], _sys.version_info[1], val,
                lname(name), "true" if val else "false")
            out = V(lname(name), BOOL)
            out.static = val
            self.consts[name] = (text, out)
            self.const_order.append(name)
            return out
        if isinstance(node.value, (ast.Tuple, ast.List)) and node.value.elts and all(
                isinstance(x, (ast.Tuple, ast.List)) and len(x.elts) == 2 for x in node.value.elts):
            # a constant table of pairs `((a, b), …)`: kept symbolically, usable only as `for x, y in NAME:` (the same
            # translation as `for x, y in {a: b, …}.items()`)
            fn = Fn(self, None, {"name": name}, const=True)
            items = []
            for x in node.value.elts:
                pa, pb = fn.expr(x.elts[0], {}), fn.expr(x.elts[1], {})
                if fn.pre or any(q.t != INT or q.lo is None or q.lo != q.hi for q in (pa, pb)):
                    raise TranslationError("%s: module table %r: only constant int pairs are in the subset" % (where, name))
                items.append((pa.lo, pb.lo))
            out = V("", "pairs", rec=items)
            self.consts[name] = (None, out)
            return out
        fn = Fn(self, None, {"name": name}, const=True)
        v = fn.expr(node.value, {})
        if fn.pre:
            raise TranslationError("%s: module constant %r needs an operation that can raise" % (where, name))
        if v.t not in (INT, INTS):
            raise TranslationError("%s: module constant %r has unsupported type %s" % (where, name, v.t))
        text = "/-- module constant, line %d: `%s` -/\ndef %s : %s := %s" % (
            node.lineno, self.segment(node).replace("\n", " ").replace("-/", "- /").replace("/-", "/ -"), lname(name), v.t, v.s)
        out = V(lname(name), v.t, v.lo, v.hi, v.n, (), v.elo, v.ehi)
        self.consts[name] = (text, out)
        self.const_order.append(name)
        return out

# ------------------------------------------------------------------------------------------------ function

class Fn:
    def __init__(self, mod, node, spec, const=False):
        self.mod, self.node, self.spec = mod, node, spec
        self.monadic = False
        self.pre = []                 # pending hoisted binds (name, lean text of an R-valued expression)
        self.guard = 0                # > 0 while inside a conditionally evaluated sub-expression
        self.loop = 0
        self.fresh = 0
        self.rettype = None
        self.const = const
        self.names = set()
        self.notes = []
        self.owner = None             # name of the first parameter of a method declared with `mutates`
        self.locals = set()           # parameters and every name the function binds (Python: local for the whole body)
        if node is not None:
            for n in ast.walk(node):
                if isinstance(n, ast.Name):
                    self.names.add(n.id)
                    if isinstance(n.ctx, (ast.Store, ast.Del)):
                        self.locals.add(n.id)
                if isinstance(n, ast.arg):
                    self.names.add(n.arg)
                    self.locals.add(n.arg)

    # -------------------------------------------------------------------------------- helpers
    def err(self, node, msg):
        ln = getattr(node, "lineno", None)
        raise TranslationError("%s:%s %s: %s" % (self.mod.relpath, ln if ln is not None else "?", self.spec.get("name", "?"), msg))

    def tmp(self, base="t"):
        while True:
            self.fresh += 1
            n = "%s%d" % (base, self.fresh)
            if n not in self.names:
                self.names.add(n)
                return n

    def hoist(self, node, text, t, **kw):
        """bind the R-valued Lean expression `text` before the current statement; returns the bound name"""
        if not self.monadic:
            raise NeedMonad()
        if self.guard:
            self.err(node, "an operation that can raise occurs inside a conditionally evaluated sub-expression "
                           "(conditional expression / and / or): not in the subset")
        n = self.tmp()
        self.pre.append((n, text))
        return V(n, t, **kw)

    # -------------------------------------------------------------------------------- expressions
    def expr(self, e, env):
        if isinstance(e, ast.Dict):
            ks = [self.expr(x, env) if x is not None else None for x in e.keys]
            vs = [self.expr(x, env) for x in e.values]
            if any(x is None or x.t != INT or x.lo is None or x.lo != x.hi for x in ks + vs):
                self.err(e, "dict display: only constant int keys and values are in the subset")
            if len({x.lo for x in ks}) != len(ks):
                self.err(e, "dict display with a repeated key")
            return V("", "dict", rec=[(a.lo, b.lo) for a, b in zip(ks, vs)])
        if isinstance(e, ast.Constant):
            v = e.value
            if isinstance(v, bool):
                return V("true" if v else "false", BOOL)
            if isinstance(v, int):
                return V(lit(v), INT, v, v)
            if isinstance(v, bytes):
                return V("([%s] : Bytes)" % ", ".join(str(x) for x in v), BYTES, n=len(v))
            if isinstance(v, float) and v.is_integer() and abs(v) < FLT_LIMIT:
                return V(lit(int(v)), FLT, int(v), int(v))
            self.err(e, "literal %r (type %s) is not in the subset" % (v, type(v).__name__))
        if isinstance(e, ast.Name):
            if e.id in env:
                return env[e.id]
            if e.id in self.locals:
                self.err(e, "local variable %s may be unbound here (or belongs to an enclosing function): not in the subset" % e.id)
            return self.mod.constant(e.id, "%s:%d" % (self.mod.relpath, e.lineno))
        if isinstance(e, ast.Attribute):
            if isinstance(e.value, ast.Name) and e.value.id in env and env[e.value.id].t == "rec":
                key = e.value.id + "." + e.attr
                if key in env:
                    return env[key]
                self.err(e, "attribute %s is not declared for parameter %s in the SRC table" % (e.attr, e.value.id))
            self.err(e, "attribute access %s is not in the subset" % ast.unparse(e))
        if isinstance(e, ast.BinOp):
            return self.binop(e, e.op, self.expr(e.left, env), self.expr(e.right, env))
        if isinstance(e, ast.UnaryOp):
            if isinstance(e.op, ast.Not):
                return V("(!%s)" % self.boolval(e.operand, env), BOOL)
            a = self.expr(e.operand, env)
            if a.t != INT:
                self.err(e, "unary %s on %s" % (type(e.op).__name__, a.t))
            if isinstance(e.op, ast.USub):
                return V("(-%s)" % a.s, INT, None if a.hi is None else -a.hi, None if a.lo is None else -a.lo)
            if isinstance(e.op, ast.UAdd):
                return a
            if isinstance(e.op, ast.Invert):
                return V("(Py.inv %s)" % a.s, INT, None if a.hi is None else -a.hi - 1, None if a.lo is None else -a.lo - 1)
        if isinstance(e, ast.BoolOp) or isinstance(e, ast.Compare):
            return V("(decide %s)" % self.cond(e, env), BOOL)
        if isinstance(e, ast.IfExp):
            c = self.cond(e.test, env)
            self.guard += 1
            a, b = self.expr(e.body, env), self.expr(e.orelse, env)
            self.guard -= 1
            return union(a, b, "(if %s then %s else %s)" % (c, a.s, b.s))
        if isinstance(e, ast.Call):
            return self.call(e, env)
        if isinstance(e, ast.Subscript):
            return self.subscript(e, env)
        if isinstance(e, (ast.List, ast.Tuple)):
            xs = [self.expr(x, env) for x in e.elts]
            if any(x.t != INT for x in xs):
                self.err(e, "list / tuple display with a non-int element")
            return V("([%s] : List Int)" % ", ".join(x.s for x in xs), INTS, n=len(xs),
                     elo=_min(*[x.lo for x in xs]) if xs else None, ehi=_max(*[x.hi for x in xs]) if xs else None)
        self.err(e, "expression %s (%s) is not in the subset" % (ast.unparse(e)[:60], type(e).__name__))

    def binop(self, node, op, a, b):
        if isinstance(op, ast.Add) and a.t in (BYTES, BYTEARRAY) and b.t in (BYTES, BYTEARRAY):
            return V("(%s ++ %s)" % (a.s, b.s), a.t, n=None if a.n is None or b.n is None else a.n + b.n)
        if isinstance(op, ast.Mult) and a.t == INTS and b.t == INT and a.n == 1:
            if b.lo is None or b.lo < 0:
                self.err(node, "[c] * n: cannot show n >= 0")
            inner = a.s.strip()
            m = re.fullmatch(r"\(\[(.*)\] : List Int\)", inner)
            return V("(Py.replicate %s %s)" % (b.s, m.group(1) if m else "(Py.intAt %s 0)" % a.s), INTS,
                     n=b.lo if b.lo == b.hi else None, elo=a.elo, ehi=a.ehi)
        if a.t == INT and b.t == FLT and isinstance(op, (ast.Mod, ast.FloorDiv)):
            # int OP float: the int is converted to binary64 (exact below 2^53); CPython's float % is C fmod (exact)
            # with a sign fix, float // is (x - fmod(x, y)) / y, an exact quotient of exact operands, then floor;
            # both results are integer-valued floats of magnitude < 2^53
            if a.lo is None or a.hi is None or max(abs(a.lo), abs(a.hi)) >= FLT_LIMIT or b.lo != b.hi or b.lo <= 0:
                self.err(node, "int %s float: cannot show |int| < 2^53 and the float a positive integral constant; "
                               "declare `ranges` in the SRC table" % ("%" if isinstance(op, ast.Mod) else "//"))
            r = self.binop(node, op, a, V(b.s, INT, b.lo, b.hi))
            self.notes.append("int %s %s.0 in binary64 is exact here: |int| <= %d < 2^53 (checked from the declared ranges); "
                              "its value is the integer floor %s" % ("%" if isinstance(op, ast.Mod) else "//", b.s,
                              max(abs(a.lo), abs(a.hi)), "remainder" if isinstance(op, ast.Mod) else "quotient"))
            return V(r.s, FLT, r.lo, r.hi)
        if DEC in (a.t, b.t) and a.t in (INT, DEC) and b.t in (INT, DEC):
            # decimal.Decimal under the default context (prec 28, every trap that matters enabled): the result of
            # + - * is exact when it has at most 28 digits; // truncates towards zero (= floor for operands >= 0)
            ai, bi = V(a.s, INT, a.lo, a.hi), V(b.s, INT, b.lo, b.hi)
            if isinstance(op, (ast.Add, ast.Sub, ast.Mult)):
                r = self.binop(node, op, ai, bi)
            elif isinstance(op, ast.FloorDiv):
                if ai.lo is None or ai.lo < 0 or bi.lo is None or bi.lo != bi.hi or bi.lo <= 0:
                    self.err(node, "Decimal //: cannot show dividend >= 0 and divisor a positive constant")
                r = self.binop(node, op, ai, bi)
            else:
                self.err(node, "operator %s on Decimal is not in the subset" % type(op).__name__)
            if r.lo is None or r.hi is None or max(abs(r.lo), abs(r.hi)) >= DEC_LIMIT:
                self.err(node, "cannot show that the Decimal result of %s has at most 28 digits (it would be rounded); "
                               "declare `ranges` for the parameters in the SRC table" % type(op).__name__)
            self.notes.append("Decimal %s is exact here: |result| <= %d < 10^28 (checked from the declared ranges)" % (
                {ast.Add: "+", ast.Sub: "-", ast.Mult: "*", ast.FloorDiv: "//"}[type(op)], max(abs(r.lo), abs(r.hi))))
            return V(r.s, DEC, r.lo, r.hi)
        if a.t != INT or b.t != INT:
            self.err(node, "operator %s on %s and %s is not in the subset" % (type(op).__name__, a.t, b.t))
        f = lambda s, lo=None, hi=None: V(s, INT, lo, hi)
        if isinstance(op, ast.Add):
            return f("(%s + %s)" % (a.s, b.s), None if a.lo is None or b.lo is None else a.lo + b.lo,
                     None if a.hi is None or b.hi is None else a.hi + b.hi)
        if isinstance(op, ast.Sub):
            return f("(%s - %s)" % (a.s, b.s), None if a.lo is None or b.hi is None else a.lo - b.hi,
                     None if a.hi is None or b.lo is None else a.hi - b.lo)
        if isinstance(op, ast.Mult):
            lo = hi = None
            if None not in (a.lo, a.hi, b.lo, b.hi):
                ps = [a.lo * b.lo, a.lo * b.hi, a.hi * b.lo, a.hi * b.hi]
                lo, hi = min(ps), max(ps)
            elif a.lo is not None and b.lo is not None and a.lo >= 0 and b.lo >= 0:
                lo = a.lo * b.lo
            return f("(%s * %s)" % (a.s, b.s), lo, hi)
        if isinstance(op, (ast.FloorDiv, ast.Mod)):
            if b.lo is None or b.hi is None or b.lo <= 0 <= b.hi:
                # ZeroDivisionError cannot be excluded: the raising variant
                r = self.hoist(node, "Py.%s %s %s" % ("floordivE" if isinstance(op, ast.FloorDiv) else "pymodE", a.s, b.s), INT)
                return r
            if b.lo != b.hi:
                self.err(node, "divisor of // or %% must be a constant or an int that may be zero: %s" % b.s)
            c = b.lo
            if isinstance(op, ast.FloorDiv):
                lo = hi = None
                if c > 0:
                    lo = None if a.lo is None else a.lo // c
                    hi = None if a.hi is None else a.hi // c
                return f("(Py.floordiv %s %s)" % (a.s, b.s), lo, hi)
            if c > 0:
                if a.lo is not None and a.hi is not None and 0 <= a.lo and a.hi < c:
                    return f("(Py.pymod %s %s)" % (a.s, b.s), a.lo, a.hi)
                return f("(Py.pymod %s %s)" % (a.s, b.s), 0, c - 1)
            return f("(Py.pymod %s %s)" % (a.s, b.s), c + 1, 0)
        if isinstance(op, ast.Pow):
            if b.lo is None or b.lo < 0:
                self.err(node, "cannot show that the exponent %s is >= 0 (a negative exponent gives a float)" % b.s)
            lo = hi = None
            if a.lo is not None and a.lo >= 0:
                lo = a.lo ** b.lo if a.lo >= 1 else 0
                if a.hi is not None and b.hi is not None and b.hi <= 4096:
                    hi = a.hi ** b.hi
            return f("(Py.pow %s %s)" % (a.s, b.s), lo, hi)
        if isinstance(op, (ast.LShift, ast.RShift)):
            if b.lo is None or b.lo < 0:
                self.err(node, "cannot show that the shift count %s is >= 0 (ValueError cannot be excluded)" % b.s)
            if isinstance(op, ast.RShift):
                lo = hi = None
                if a.lo is not None and a.lo >= 0:
                    lo, hi = 0, (None if a.hi is None else a.hi >> b.lo)
                return f("(Py.shr %s %s)" % (a.s, b.s), lo, hi)
            lo = hi = None
            if a.lo is not None and a.lo >= 0:
                lo = a.lo << b.lo
                hi = None if a.hi is None or b.hi is None else a.hi << b.hi
            return f("(Py.shl %s %s)" % (a.s, b.s), lo, hi)
        if isinstance(op, ast.BitAnd):
            lo = hi = None
            nn = [x for x in (a, b) if x.lo is not None and x.lo >= 0]
            if nn:
                lo = 0
                his = [x.hi for x in nn if x.hi is not None]
                hi = min(his) if his else None
            return f("(Py.band %s %s)" % (a.s, b.s), lo, hi)
        if isinstance(op, (ast.BitOr, ast.BitXor)):
            lo = hi = None
            if a.lo is not None and b.lo is not None and a.lo >= 0 and b.lo >= 0:
                lo = 0
                if a.hi is not None and b.hi is not None:
                    hi = (1 << max(a.hi.bit_length(), b.hi.bit_length())) - 1
                if isinstance(op, ast.BitOr):
                    lo = max(a.lo, b.lo)
            return f("(Py.%s %s %s)" % ("bor" if isinstance(op, ast.BitOr) else "bxor", a.s, b.s), lo, hi)
        self.err(node, "operator %s is not in the subset" % type(op).__name__)

    def boolval(self, e, env):
        """Lean Bool text for a Python condition"""
        return "(decide %s)" % self.cond(e, env)

    def cond(self, e, env):
        """Lean Prop text (decidable) for a Python expression used as a condition"""
        if isinstance(e, ast.Call) and isinstance(e.func, ast.Name) and e.func.id == "isinstance" and (
                "isinstance" in self.locals or self.mod.binds("isinstance")):
            self.err(e, "the name isinstance is re-bound in this function or module")
        if isinstance(e, ast.BoolOp):
            parts = []
            for i, x in enumerate(e.values):
                if i:
                    self.guard += 1
                parts.append(self.cond(x, env))
            self.guard -= len(e.values) - 1
            return "(" + (" ∧ " if isinstance(e.op, ast.And) else " ∨ ").join(parts) + ")"
        if isinstance(e, ast.UnaryOp) and isinstance(e.op, ast.Not):
            return "(¬ %s)" % self.cond(e.operand, env)
        if isinstance(e, ast.Compare):
            vals = [self.expr(e.left, env)] + [None] * len(e.comparators)
            parts = []
            for i, (op, r) in enumerate(zip(e.ops, e.comparators)):
                if i:
                    self.guard += 1       # later operands of a chain are evaluated only if the chain is still true
                vals[i + 1] = self.expr(r, env) if not isinstance(r, ast.Tuple) or True else None
                parts.append(self.compare(e, op, vals[i], vals[i + 1], e.left if i == 0 else e.comparators[i - 1], r))
            self.guard -= len(e.ops) - 1
            return parts[0] if len(parts) == 1 else "(" + " ∧ ".join(parts) + ")"
        if isinstance(e, ast.Call) and isinstance(e.func, ast.Name) and e.func.id == "isinstance":
            if len(e.args) == 2 and isinstance(e.args[0], ast.Name) and e.args[0].id in env \
               and env[e.args[0].id].t == "rec" and isinstance(e.args[1], ast.Name) \
               and env[e.args[0].id].rec == e.args[1].id:
                self.notes.append("isinstance(%s, %s) is True: the parameter is declared to be a %s" % (
                    e.args[0].id, e.args[1].id, e.args[1].id))
                return "True"
            self.err(e, "isinstance on anything but a parameter declared with that class")
        v = self.expr(e, env)
        if v.t == BOOL and isinstance(e, ast.Name) and v.static is not None:
            self.notes.append("the module constant %s is %s (evaluated by the CPython running the translator); the branch "
                              "for the other value is not translated" % (e.id, v.static))
            return "True" if v.static else "False"
        if v.t == BOOL:
            return "(%s = true)" % v.s
        if v.t == INT:
            return "(%s ≠ 0)" % v.s
        if v.t in (BYTES, BYTEARRAY, INTS):
            return "(%s ≠ [])" % v.s
        self.err(e, "truth value of %s" % v.t)

    def compare(self, node, op, a, b, an, bn):
        sym = {ast.Lt: "<", ast.LtE: "≤", ast.Gt: ">", ast.GtE: "≥", ast.Eq: "=", ast.NotEq: "≠"}.get(type(op))
        if sym is None:
            self.err(node, "comparison %s is not in the subset" % type(op).__name__)
        if a.t == INT and b.t == INT:
            return "(%s %s %s)" % (a.s, sym, b.s)
        if a.t in (BYTES, BYTEARRAY) and b.t in (BYTES, BYTEARRAY) and sym in ("=", "≠"):
            return "(%s %s %s)" % (a.s, sym, b.s)
        if a.t == b.t and a.t in (BYTES, BOOL) and sym in ("=", "≠"):
            return "(%s %s %s)" % (a.s, sym, b.s)
        if a.t == INTS and b.t == INTS and isinstance(an, ast.Tuple) and isinstance(bn, ast.Tuple):
            if len(an.elts) != len(bn.elts):
                self.err(node, "tuple comparison of different lengths")
            if sym in ("=", "≠"):
                return "(%s %s %s)" % (a.s, sym, b.s)
            fn, x, y = {"<": ("tupleLt", a, b), "≤": ("tupleLe", a, b), ">": ("tupleLt", b, a), "≥": ("tupleLe", b, a)}[sym]
            return "(Py.%s %s %s = true)" % (fn, x.s, y.s)
        self.err(node, "comparison of %s with %s is not in the subset" % (a.t, b.t))

    def fmt_arg(self, node, a, env):
        """first argument of struct.pack/unpack -> (lean Fmt text, number of codes or None)"""
        ex = _extract()
        def codes_of(s):
            big, codes = ex.parse_fmt(s)
            if (not s or s[0] not in "<>!=") and len(set(codes)) > 1:
                self.err(node, "native-alignment struct format %r with codes of different sizes (padding) is not in the subset" % s)
            bad = [c for c in codes if c not in (".u8", ".u16", ".u32", ".u64")]
            if bad:
                self.err(node, "signed struct code in %r: not in the subset (Py.Struct returns the raw unsigned image)" % s)
            return big, codes
        if isinstance(a, ast.Constant) and isinstance(a.value, str):
            big, codes = codes_of(a.value)
            return "(⟨%s, [%s]⟩ : Fmt)" % ("true" if big else "false", ", ".join(codes)), len(codes)
        tmpl, cnt = None, None
        if isinstance(a, ast.Call) and isinstance(a.func, ast.Attribute) and a.func.attr == "format" \
           and isinstance(a.func.value, ast.Constant) and isinstance(a.func.value.value, str) and len(a.args) == 1 \
           and not a.keywords:
            tmpl, cnt = a.func.value.value, a.args[0]
        elif isinstance(a, ast.JoinedStr):
            parts, cnts = [], []
            for v in a.values:
                if isinstance(v, ast.Constant):
                    parts.append(v.value)
                elif isinstance(v, ast.FormattedValue) and v.conversion == -1 and v.format_spec is None:
                    parts.append("{}"); cnts.append(v.value)
                else:
                    self.err(node, "f-string format with a conversion / format spec")
            if len(cnts) == 1:
                tmpl, cnt = "".join(parts), cnts[0]
        if tmpl is None:
            self.err(node, "struct format must be a literal, LITERAL.format(n) or an f-string with one count")
        m = re.fullmatch(r"([<>!=@]?)\{\}([A-Za-z])", tmpl)
        if not m:
            self.err(node, "unsupported struct format template %r" % tmpl)
        big, codes = codes_of(m.group(1) + m.group(2))
        n = self.expr(cnt, env)
        if n.t != INT or n.lo is None or n.lo < 0:
            self.err(node, "struct format count %s: cannot show it is a non-negative int" % ast.unparse(cnt))
        # str.format of a non-negative int prints its decimal digits, which struct reads back as the repeat count
        return "(⟨%s, List.replicate (Int.toNat %s) %s⟩ : Fmt)" % ("true" if big else "false", n.s, codes[0]), None

    def call(self, e, env):
        f = e.func
        if e.keywords:
            self.err(e, "keyword arguments are not in the subset")
        if len(e.args) == 1 and isinstance(e.args[0], ast.Starred):
            e = self.inline_starred(e, env)
        name = f.id if isinstance(f, ast.Name) else None
        if name in ("len", "int", "pow", "bytes", "bytearray", "sum", "reduce", "Decimal", "isinstance", "range", "tuple", "list"):
            if name in self.locals or name in env or (name not in ("reduce", "Decimal") and self.mod.binds(name)):
                self.err(e, "the name %s is re-bound in this function or module: the call is not the built-in" % name)
        if name == "len" and len(e.args) == 1:
            a = self.expr(e.args[0], env)
            if a.t not in (BYTES, BYTEARRAY, INTS):
                self.err(e, "len() of %s" % a.t)
            if a.n is not None:
                return V("(Py.len %s)" % a.s, INT, a.n, a.n)
            return V("(Py.len %s)" % a.s, INT, 0, None)
        if name == "int" and len(e.args) == 1 and isinstance(e.args[0], ast.BinOp) and isinstance(e.args[0].op, ast.Div) \
           and not self.closed_float(e.args[0]):
            # int(a / c) for ints a >= 0, c >= 1: a / c is the correctly rounded binary64 quotient; it cannot reach the
            # next integer from below as long as a + c < 2^53 (the gap 1/c exceeds the rounding error (a/c) * 2^-53), and an
            # exact integer quotient is exact; so int() of it is floor(a / c)
            x, c = self.expr(e.args[0].left, env), self.expr(e.args[0].right, env)
            if x.t != INT or c.t != INT:
                self.err(e, "int(a / c) of non-ints")
            if x.lo is None or x.lo < 0 or x.hi is None or c.lo is None or c.lo < 1 or c.hi is None or x.hi + c.hi >= FLT_LIMIT:
                self.err(e, "int(a / c): cannot show a >= 0, c >= 1 and a + c < 2^53 (needed for the float quotient to "
                            "truncate to the integer quotient); declare `ranges` in the SRC table")
            self.notes.append("%s is the integer quotient: true division in binary64, exact to truncation because "
                              "0 <= a, 1 <= c and a + c <= %d < 2^53 (checked from the declared ranges)" % (
                                  self.mod.segment(e) or ast.unparse(e), x.hi + c.hi))
            if c.lo == c.hi:
                return self.binop(e, ast.FloorDiv(), x, c)
            return V("(Py.floordiv %s %s)" % (x.s, c.s), INT, x.lo // c.hi, x.hi // c.lo)
        if name == "int" and len(e.args) == 1:
            if self.closed_float(e.args[0]):
                val = eval(compile(ast.Expression(e), "<const>", "eval"), {"__builtins__": {"int": int, "round": round, "pow": pow}})
                self.notes.append("%s is the constant %d (closed expression evaluated by CPython)" % (
                    self.mod.segment(e) or ast.unparse(e), val))
                return V(lit(val), INT, val, val)
            a = self.expr(e.args[0], env)
            if a.t == INT:
                return a
            if a.t == DEC:
                self.notes.append("int(Decimal) of an integer-valued Decimal is its value")
                return V(a.s, INT, a.lo, a.hi)
            if a.t == FLT:
                self.notes.append("int(float) of an integer-valued float is its value")
                return V(a.s, INT, a.lo, a.hi)
            self.err(e, "int() of %s" % a.t)
        if name == "Decimal" and len(e.args) == 1:
            if "Decimal" in env or not self.mod.imported("Decimal", "decimal", "Decimal"):
                self.err(e, "`Decimal` is not (only) decimal.Decimal in this module")
            if self.closed_float(e.args[0]):
                fv = eval(compile(ast.Expression(e.args[0]), "<const>", "eval"), {"__builtins__": {}})
                if not float(fv).is_integer():
                    self.err(e, "Decimal of the non-integral float %r is not in the subset" % fv)
                val = int(fv)
                self.notes.append("%s is exactly %d (the constructor converts a float exactly)" % (self.mod.segment(e) or ast.unparse(e), val))
                return V(lit(val), DEC, val, val)
            a = self.expr(e.args[0], env)
            if a.t != INT:
                self.err(e, "Decimal() of %s" % a.t)
            self.notes.append("Decimal(int) is exact (the constructor does not round)")
            return V(a.s, DEC, a.lo, a.hi)
        if name == "pow" and len(e.args) == 2:
            a, b = self.expr(e.args[0], env), self.expr(e.args[1], env)
            if None in (a.lo, b.lo) or a.lo != a.hi or b.lo != b.hi or b.lo < 0:
                self.err(e, "pow() of non-constant arguments")
            return V(lit(a.lo ** b.lo), INT, a.lo ** b.lo, a.lo ** b.lo)
        if name in ("bytes", "bytearray") and len(e.args) == 1:
            a = self.expr(e.args[0], env)
            if a.t in (BYTES, BYTEARRAY):
                return V(a.s, BYTES if name == "bytes" else BYTEARRAY, n=a.n)
            self.err(e, "%s() of %s" % (name, a.t))
        if name in ("tuple", "list") and len(e.args) == 1:
            a = self.expr(e.args[0], env)
            if a.t != INTS:
                self.err(e, "%s() of %s" % (name, a.t))
            return V(a.s, INTS, n=a.n, elo=a.elo, ehi=a.ehi)          # a new object with the same items
        if name in ("bytes", "bytearray") and not e.args:
            return V("([] : Bytes)", BYTES if name == "bytes" else BYTEARRAY, n=0)
        if name == "sum" and len(e.args) == 1 and isinstance(e.args[0], (ast.GeneratorExp, ast.ListComp)):
            # sum(f(v) for v in <range / bytes / int list>): the sum of the mapped sequence; the element expression must not
            # raise, the comprehension has one `for`, no `if`; its variable is local to it (Python 3)
            g = e.args[0]
            if len(g.generators) != 1 or g.generators[0].ifs or g.generators[0].is_async \
               or not isinstance(g.generators[0].target, ast.Name):
                self.err(e, "sum() of a comprehension: exactly one `for NAME in …`, no `if`, is in the subset")
            var = g.generators[0].target.id
            if var in env:
                self.err(e, "the comprehension variable %s shadows a bound name" % var)
            iters, lv = self.iter_of(e, g.generators[0].iter, var, env, [])
            env2 = dict(env)
            env2[var] = lv
            self.guard += 1
            try:
                el = self.expr(g.elt, env2)
            finally:
                self.guard -= 1
            if el.t != INT:
                self.err(e, "sum() of a comprehension of %s" % el.t)
            lo = 0 if (el.lo is not None and el.lo >= 0) else None
            return V("(Py.sum (List.map (fun (%s : Int) => %s) %s))" % (lname(var), el.s, iters), INT, lo, None)
        if name == "sum" and len(e.args) == 1:
            a = self.expr(e.args[0], env)
            if a.t != INTS:
                self.err(e, "sum() of %s" % a.t)
            lo = 0 if (a.elo is not None and a.elo >= 0) else None
            return V("(Py.sum %s)" % a.s, INT, lo, None)
        if name == "reduce" and len(e.args) == 2 and isinstance(e.args[0], ast.Lambda):
            if "reduce" in env or not self.mod.imported("reduce", "functools", "reduce"):
                self.err(e, "`reduce` is not (only) functools.reduce in this module")
            lam = e.args[0]
            if len(lam.args.args) != 2 or lam.args.vararg or lam.args.kwarg or lam.args.defaults:
                self.err(e, "reduce: the function must be a lambda of two plain parameters")
            x, y = lam.args.args[0].arg, lam.args.args[1].arg
            a = self.expr(e.args[1], env)
            if a.t != INTS:
                self.err(e, "reduce() over %s" % a.t)
            sub = Fn(self.mod, lam, self.spec)
            sub.guard = 1          # nothing that raises inside the lambda
            sub.locals = (self.locals | set(env)) - {x, y}      # a captured local is refused, never mistaken for a constant
            body = sub.expr(lam.body, {x: V(lname(x), INT), y: V(lname(y), INT)})
            if body.t != INT:
                self.err(e, "reduce: the lambda returns %s" % body.t)
            return self.hoist(e, "Py.reduce (fun (%s %s : Int) => %s) %s" % (lname(x), lname(y), body.s, a.s), INT)
        if isinstance(f, ast.Attribute) and isinstance(f.value, ast.Name) and f.value.id == "struct" and f.value.id not in env:
            if not self.mod.imported("struct", "struct"):
                self.err(e, "`struct` is not (only) the standard module in this module")
            if f.attr == "unpack" and len(e.args) == 2:
                fmt, n = self.fmt_arg(e, e.args[0], env)
                b = self.expr(e.args[1], env)
                if b.t not in (BYTES, BYTEARRAY):
                    self.err(e, "struct.unpack of %s" % b.t)
                return self.hoist(e, "Py.structUnpackI %s %s" % (fmt, b.s), INTS, n=n, elo=0)
            if f.attr == "pack" and len(e.args) >= 1:
                fmt, n = self.fmt_arg(e, e.args[0], env)
                if n is None:
                    self.err(e, "struct.pack with a computed count")
                vs = [self.expr(x, env) for x in e.args[1:]]
                if any(v.t != INT for v in vs):
                    self.err(e, "struct.pack of a non-int value")
                if len(vs) != n:
                    self.err(e, "struct.pack: %d values for %d codes" % (len(vs), n))
                return self.hoist(e, "Py.structPackI %s [%s]" % (fmt, ", ".join(v.s for v in vs)), BYTES)
            self.err(e, "struct.%s is not in the subset" % f.attr)
        if isinstance(f, ast.Attribute) and f.attr == "count" and len(e.args) == 1 and isinstance(e.args[0], ast.Constant) \
           and isinstance(e.args[0].value, str) and len(e.args[0].value) == 1 and self.is_bin_slice(f.value):
            # `bin(x)[lo:hi].count('c')`: the characters of Python's binary literal of x ('-' sign, '0b', digits, most
            # significant first), sliced (bounds >= 0 shown), and the occurrences of one character counted
            if "bin" in self.locals or "bin" in env or self.mod.binds("bin"):
                self.err(e, "the name bin is re-bound in this function or module")
            sub = f.value
            x = self.expr(sub.value.args[0], env)
            if x.t != INT:
                self.err(e, "bin() of %s" % x.t)
            lo = self.expr(sub.slice.lower, env) if sub.slice.lower is not None else V("0", INT, 0, 0)
            hi = self.expr(sub.slice.upper, env)
            for b_ in (lo, hi):
                if b_.t != INT or b_.lo is None or b_.lo < 0:
                    self.err(e, "slice bound %s of bin(...): cannot show it is >= 0; declare `ranges` in the SRC table" % b_.s)
            return V("(Py.strCount '%s' (Py.sliceI (Py.bin %s) %s %s))" % (e.args[0].value, x.s, lo.s, hi.s), INT, 0, None)
        # calls of other translated functions / constructors
        target = None
        selfcall = False
        if name is not None:
            target = name
        elif isinstance(f, ast.Attribute) and isinstance(f.value, ast.Name):
            if f.value.id in env and env[f.value.id].t == "rec":
                target, selfcall = env[f.value.id].rec + "." + f.attr, f.value.id
            else:
                target = f.value.id + "." + f.attr
        if target is not None and target not in self.mod.funcs and name is not None and name not in env \
           and name not in self.locals and name not in getattr(self.mod, "in_progress", set()):
            # a helper function of the same module that the SRC table does not list: translated on demand, with the
            # parameter types of this call (its own tie is the caller's theorem)
            helper = None
            for n_ in self.mod.tree.body:
                if isinstance(n_, ast.FunctionDef) and n_.name == name:
                    helper = n_
            if helper is not None and not helper.decorator_list:
                ptypes = {}
                saved_pre, self.pre = self.pre, []
                saved_guard, self.guard = self.guard, 1          # only the types are wanted here
                try:
                    for prm, a_ in zip([x.arg for x in helper.args.args], e.args):
                        try:
                            ta = self.expr(a_, env).t
                        except (TranslationError, NeedMonad):
                            ta = None
                        ptypes[prm] = {INT: "int", BYTES: "bytes", BYTEARRAY: "bytes", INTS: "ints"}.get(ta)
                finally:
                    self.pre, self.guard = saved_pre, saved_guard
                if all(v_ is not None for v_ in ptypes.values()) and len(ptypes) == len(helper.args.args):
                    if not hasattr(self.mod, "in_progress"):
                        self.mod.in_progress = set()
                    self.mod.in_progress.add(name)
                    try:
                        translate_function(self.mod, {"func": name, "params": ptypes})
                    finally:
                        self.mod.in_progress.discard(name)
                    self.notes.append("the helper %s of the same module is translated on demand (definition above)" % name)
        if target in self.mod.funcs:
            sig = self.mod.funcs[target]
            args = []
            argv = {}
            pyargs = list(e.args)
            for pname, pt in sig["params"]:
                if pt[0] == "rec":
                    if pname == "self" and selfcall:
                        src = selfcall
                    else:
                        if not pyargs:
                            self.err(e, "too few arguments for %s" % target)
                        a = pyargs.pop(0)
                        if not (isinstance(a, ast.Name) and a.id in env and env[a.id].t == "rec" and env[a.id].rec == pt[1]):
                            self.err(e, "argument for %s of %s must be a parameter declared %s" % (pname, target, pt[1]))
                        src = a.id
                    for fld, ft in pt[2]:
                        key = src + "." + fld
                        if key not in env:
                            self.err(e, "%s needs attribute %s of %s, which is not declared here" % (target, fld, src))
                        args.append(env[key].s)
                else:
                    if not pyargs:
                        self.err(e, "too few arguments for %s (defaults are not in the subset)" % target)
                    a = self.expr(pyargs.pop(0), env)
                    if a.t != pt[0]:
                        self.err(e, "argument %s of %s: %s expected, %s given" % (pname, target, pt[0], a.t))
                    args.append(a.s)
                    argv[pname] = a
            if pyargs:
                self.err(e, "too many arguments for %s" % target)
            if sig.get("mutates"):
                self.err(e, "%s changes its object; calling it is not in the subset" % target)
            if sig.get("ranges"):
                # the ranges are hypotheses of the callee's definition: the call must discharge them, which the translator
                # does for arguments whose interval it knows to lie inside the range (`by decide` on the constant bounds)
                for key, (lo, hi) in sig["ranges"].items():
                    if key not in argv or argv[key].lo is None or argv[key].hi is None or argv[key].lo != argv[key].hi \
                       or not (lo <= argv[key].lo <= hi):
                        self.err(e, "%s is translated under a declared range for %s; the call does not pass a constant inside it" % (target, key))
                    args.append("(by decide)")
            text = "%s %s" % (sig["lean"], " ".join(args))
            if sig["monadic"]:
                return self.hoist(e, text, sig["ret"])
            return V("(%s)" % text, sig["ret"])
        if name is not None and name not in env:
            # constructor of a class whose __init__ only stores its arguments
            try:
                cls = self.mod.find(name)
            except TranslationError:
                cls = None
            if isinstance(cls, ast.ClassDef):
                fields = init_fields(self, cls)
                if len(e.args) > len(fields):
                    self.err(e, "too many constructor arguments")
                vals = []
                for i, (fld, default) in enumerate(fields):
                    if i < len(e.args):
                        vals.append(self.expr(e.args[i], env))
                    elif default is not None:
                        vals.append(self.expr(default, {}))
                    else:
                        self.err(e, "constructor argument %s missing" % fld)
                if any(v.t != INT for v in vals):
                    self.err(e, "constructor argument of non-int type")
                self.notes.append("%s(...) is the tuple of the attributes its __init__ stores: (%s)" % (
                    name, ", ".join(fl for fl, _ in fields)))
                return V("(%s)" % ", ".join(v.s for v in vals), "rec:" + name + ":" + ",".join(fl for fl, _ in fields))
        self.err(e, "call of %s is not in the subset" % ast.unparse(f))

    def inline_starred(self, e, env):
        """`g(*h(a, …))` where `h` is a function of this module / class whose body is `return (e1, …, en)`: the call
        `g(e1[a/x], …)`.  Only names and constants may be passed to `h` (they are substituted, so evaluated once per use)."""
        inner = e.args[0].value
        if not isinstance(inner, ast.Call) or inner.keywords:
            self.err(e, "starred argument that is not a call is not in the subset")
        hf = inner.func
        hname = hf.id if isinstance(hf, ast.Name) else (
            hf.value.id + "." + hf.attr if isinstance(hf, ast.Attribute) and isinstance(hf.value, ast.Name) else None)
        if hname is None or hname.split(".")[0] in env or hname.split(".")[0] in self.locals:
            self.err(e, "starred call of %s is not in the subset" % ast.unparse(hf))
        node = self.mod.find(hname)
        if not isinstance(node, ast.FunctionDef):
            self.err(e, "%s is not a function" % hname)
        decos = [d.id if isinstance(d, ast.Name) else ast.unparse(d) for d in node.decorator_list]
        if any(d != "staticmethod" for d in decos) or ("." in hname and decos != ["staticmethod"]):
            self.err(e, "starred call of %s: only plain functions / static methods are inlined" % hname)
        body = [st for st in node.body if not (isinstance(st, ast.Expr) and isinstance(st.value, ast.Constant))]
        a = node.args
        if len(body) != 1 or not isinstance(body[0], ast.Return) or not isinstance(body[0].value, ast.Tuple) \
           or a.vararg or a.kwarg or a.kwonlyargs or a.posonlyargs or a.defaults:
            self.err(e, "starred call of %s: its body must be a single `return (e1, …)`" % hname)
        params = [x.arg for x in a.args]
        if len(params) != len(inner.args) or not all(isinstance(x, (ast.Name, ast.Constant)) for x in inner.args):
            self.err(e, "starred call of %s: only names / constants may be passed" % hname)
        sub = dict(zip(params, inner.args))
        bound = {n.id for n in ast.walk(body[0].value) if isinstance(n, ast.Name)} - set(params)
        clash = [n for n in bound if n in env or n in self.locals]
        if clash:
            self.err(e, "starred call of %s: its free name %s is a local here" % (hname, clash[0]))
        class Sub(ast.NodeTransformer):
            def visit_Name(self_, n):
                return ast.copy_location(__import__("copy").deepcopy(sub[n.id]), n) if n.id in sub else n
        elts = [Sub().visit(__import__("copy").deepcopy(x)) for x in body[0].value.elts]
        self.notes.append("%s(*%s(…)): the tuple `%s` returned by %s is passed element by element" % (
            ast.unparse(e.func), hname, ast.unparse(body[0].value), hname))
        return ast.copy_location(ast.Call(func=e.func, args=elts, keywords=[]), e)

    @staticmethod
    def is_bin_slice(e):
        return (isinstance(e, ast.Subscript) and isinstance(e.slice, ast.Slice) and e.slice.step is None
                and e.slice.upper is not None and isinstance(e.value, ast.Call) and isinstance(e.value.func, ast.Name)
                and e.value.func.id == "bin" and len(e.value.args) == 1 and not e.value.keywords)

    def iter_of(self, s, it, var, env, asg):
        """(Lean text of the list of ints iterated over, V of the loop variable) for range(...) / bytes / int list"""
        if isinstance(it, ast.Call) and isinstance(it.func, ast.Name) and it.func.id == "range" and not it.keywords \
           and 1 <= len(it.args) <= 3:
            if "range" in self.locals or self.mod.binds("range"):
                self.err(s, "the name range is re-bound in this function or module")
            args = [self.expr(a, env) for a in it.args]
            if any(a.t != INT for a in args):
                self.err(s, "range() of a non-int")
            if len(args) == 1:
                lt = set()
                a0 = it.args[0]
                if isinstance(a0, ast.Call) and isinstance(a0.func, ast.Name) and a0.func.id == "len" and len(a0.args) == 1:
                    sq = a0.args[0]
                    kname = sq.id if isinstance(sq, ast.Name) else (
                        sq.value.id + "." + sq.attr if isinstance(sq, ast.Attribute) and isinstance(sq.value, ast.Name) else None)
                    if kname is not None and kname not in asg:
                        lt.add(kname)
                return "(Py.range %s)" % args[0].s, V(lname(var), INT, 0, None if args[0].hi is None else args[0].hi - 1, ltlen=lt)
            if len(args) == 2:
                return "(Py.range2 %s %s)" % (args[0].s, args[1].s), \
                    V(lname(var), INT, args[0].lo, None if args[1].hi is None else args[1].hi - 1)
            if args[2].lo is None or args[2].lo != args[2].hi or args[2].lo <= 0:
                self.err(s, "range step must be a positive constant")
            return "(Py.range3 %s %s %s)" % (args[0].s, args[1].s, args[2].s), \
                V(lname(var), INT, args[0].lo, None if args[1].hi is None else args[1].hi - 1)
        seq = self.expr(it, env)
        if seq.t in (BYTES, BYTEARRAY):
            return "(Py.bytesInts %s)" % seq.s, V(lname(var), INT, 0, 255)
        if seq.t == INTS:
            return seq.s, V(lname(var), INT, seq.elo, seq.ehi)
        self.err(s, "iteration over %s is not in the subset" % seq.t)

    def closed_float(self, e):
        """a closed arithmetic expression over int / float literals (no names)"""
        has_float = False
        for n in ast.walk(e):
            if isinstance(n, ast.Constant):
                if isinstance(n.value, float):
                    has_float = True
                elif not isinstance(n.value, int) or isinstance(n.value, bool):
                    return False
            elif not isinstance(n, (ast.BinOp, ast.UnaryOp, ast.operator, ast.unaryop, ast.expr_context)):
                return False
        return has_float

    def safe_index(self, seq, seqnode, i):
        if i.lo is None or i.lo < 0:
            return False
        if seq.n is not None and i.hi is not None and i.hi < seq.n:
            return True
        if isinstance(seqnode, ast.Name) and seqnode.id in i.ltlen:
            return True
        if isinstance(seqnode, ast.Attribute) and isinstance(seqnode.value, ast.Name) \
           and (seqnode.value.id + "." + seqnode.attr) in i.ltlen:
            return True
        return False

    def stride_of(self, node, sl, env):
        """`[A::K]` with constants A >= 0, K >= 1 and no upper bound -> (A, K)"""
        if sl.upper is not None:
            self.err(node, "extended slice with an upper bound is not in the subset")
        a = self.expr(sl.lower, env) if sl.lower is not None else V("0", INT, 0, 0)
        k = self.expr(sl.step, env)
        if a.t != INT or k.t != INT or a.lo is None or a.lo != a.hi or a.lo < 0 or k.lo is None or k.lo != k.hi or k.lo < 1:
            self.err(node, "extended slice [A::K] needs constants A >= 0 and K >= 1")
        return a.lo, k.lo

    def subscript(self, e, env):
        seq = self.expr(e.value, env)
        if seq.t not in (BYTES, BYTEARRAY, INTS):
            self.err(e, "subscript of %s" % seq.t)
        sl = e.slice
        if isinstance(sl, ast.Slice):
            if sl.step is not None:
                start, step = self.stride_of(e, sl, env)
                return V("(Py.getStride %d %d %s)" % (step, start, seq.s), seq.t, elo=seq.elo, ehi=seq.ehi)
            lo = self.expr(sl.lower, env) if sl.lower is not None else V("0", INT, 0, 0)
            if sl.upper is not None:
                hi = self.expr(sl.upper, env)
            else:
                hi = V("(Py.len %s)" % seq.s, INT, 0, None)
            for x in (lo, hi):
                if x.t != INT or x.lo is None or x.lo < 0:
                    self.err(e, "slice bound %s: cannot show it is >= 0 (negative bounds count from the end)" % x.s)
            return V("(Py.sliceI %s %s %s)" % (seq.s, lo.s, hi.s), seq.t, elo=seq.elo, ehi=seq.ehi)
        i = self.expr(sl, env)
        if i.t != INT:
            self.err(e, "index of type %s" % i.t)
        if seq.t in (BYTES, BYTEARRAY):
            if self.safe_index(seq, e.value, i):
                return V("(Py.byteAt %s %s)" % (seq.s, i.s), INT, 0, 255)
            return self.hoist(e, "Py.getByte %s %s" % (seq.s, i.s), INT, lo=0, hi=255)
        if self.safe_index(seq, e.value, i):
            return V("(Py.intAt %s %s)" % (seq.s, i.s), INT, seq.elo, seq.ehi)
        return self.hoist(e, "Py.getItem %s %s" % (seq.s, i.s), INT, lo=seq.elo, hi=seq.ehi)

    # -------------------------------------------------------------------------------- statements
    def flush(self, text):
        """prefix the pending hoisted binds to the statement text"""
        out = ""
        for n, m in self.pre:
            out += "(%s) >>= fun %s =>\n" % (m, n)
        self.pre = []
        return out + text

    def result(self, v):
        t = v.t
        if self.rettype is None:
            self.rettype = t
        elif self.rettype != t:
            raise TranslationError("%s: returns both %s and %s" % (self.spec.get("name"), self.rettype, t))
        return "(.ok %s)" % v.s if self.monadic else v.s

    def ltype(self, t):
        if t in (DEC, FLT):
            return "Int"
        if t == BYTEARRAY:
            return "Bytes"
        if t.startswith("rec:"):
            return " × ".join(["Int"] * len(t.split(":")[2].split(",")))
        if t.startswith("tup:"):
            return " × ".join(t[4:].split(";"))
        return t

    def tuple_of(self, names, env):
        if len(names) == 1:
            return env[names[0]].s
        return "(" + ", ".join(env[n].s for n in names) + ")"

    def tuple_type(self, names, env):
        return " × ".join(self.ltype(env[n].t) for n in names)

    def unpack_tuple(self, st, names, env):
        """lean lets that bind `names` from the tuple value `st`"""
        if len(names) == 1:
            return ""
        out = ""
        for i, n in enumerate(names):
            proj = st + ".2" * i + (".1" if i < len(names) - 1 else "")
            out += "let %s : %s := %s\n" % (env[n].s, self.ltype(env[n].t), proj)
        return out

    def varname(self, key):
        return lname(key.replace(".", "_"))

    def is_logging_call(self, e):
        """`logging.<level>(…)` with `logging` the standard module, or `logger.<level>(…)` with `logger` bound exactly once,
        at module level, to `logging.getLogger(…)`"""
        if not (isinstance(e, ast.Call) and isinstance(e.func, ast.Attribute) and isinstance(e.func.value, ast.Name)
                and e.func.attr in ("debug", "info", "warning", "error", "critical", "exception")):
            return False
        base = e.func.value.id
        if base in self.locals:
            return False
        if base == "logging":
            return self.mod.imported("logging", "logging")
        binds = [n for n in self.mod.tree.body if isinstance(n, ast.Assign) and len(n.targets) == 1
                 and isinstance(n.targets[0], ast.Name) and n.targets[0].id == base]
        stores = [n for n in ast.walk(self.mod.tree) if isinstance(n, ast.Name) and n.id == base and isinstance(n.ctx, ast.Store)]
        if len(binds) != 1 or len(stores) != 1:
            return False
        v = binds[0].value
        return (isinstance(v, ast.Call) and isinstance(v.func, ast.Attribute) and v.func.attr == "getLogger"
                and isinstance(v.func.value, ast.Name) and v.func.value.id == "logging" and self.mod.imported("logging", "logging"))

    @staticmethod
    def is_append(e):
        return (isinstance(e, ast.Call) and isinstance(e.func, ast.Attribute) and e.func.attr == "append"
                and isinstance(e.func.value, ast.Name))

    def assigned(self, stmts, env):
        """names (or `obj.attr` keys) assigned anywhere in the statements, in order of first appearance"""
        out = []
        def tgt(t):
            if isinstance(t, ast.Name):
                if t.id not in out:
                    out.append(t.id)
            elif isinstance(t, (ast.Tuple, ast.List)):
                for x in t.elts:
                    tgt(x)
            elif isinstance(t, ast.Subscript):
                tgt(t.value)
            elif isinstance(t, ast.Attribute) and isinstance(t.value, ast.Name):
                k = t.value.id + "." + t.attr
                if k not in out:
                    out.append(k)
            else:
                self.err(t, "assignment target %s is not in the subset" % ast.unparse(t))
        for s in stmts:
            for n in ast.walk(s):
                if isinstance(n, ast.Assign):
                    for t in n.targets:
                        tgt(t)
                elif isinstance(n, (ast.AugAssign, ast.AnnAssign)):
                    tgt(n.target)
                elif isinstance(n, ast.For):
                    tgt(n.target)
                elif isinstance(n, ast.Expr) and self.is_append(n.value):
                    tgt(n.value.func.value)
                elif isinstance(n, (ast.NamedExpr, ast.With, ast.Try, ast.FunctionDef, ast.ClassDef,
                                    ast.Global, ast.Nonlocal, ast.Delete, ast.Import, ast.ImportFrom)):
                    self.err(n, "%s is not in the subset" % type(n).__name__)
        return out

    @staticmethod
    def has_exit(stmts, returns_only=False):
        for s in stmts:
            for n in ast.walk(s):
                if isinstance(n, ast.Return) or (isinstance(n, ast.Raise) and not returns_only):
                    return True
        return False

    def block(self, stmts, env, k):
        """Lean text for: run `stmts` in `env`, then continue with k(env)"""
        if not stmts:
            return k(env)
        s, rest = stmts[0], stmts[1:]
        env = dict(env)
        if isinstance(s, ast.Expr) and isinstance(s.value, ast.Constant) and isinstance(s.value.value, str):
            return self.block(rest, env, k)           # docstring
        if isinstance(s, ast.Pass):
            return self.block(rest, env, k)
        if isinstance(s, ast.Expr) and self.is_logging_call(s.value):
            # logging.<level>(…) / logger.<level>(…): no effect on any value the translation speaks about.  Its arguments
            # must be constants or bound plain names, so that evaluating them cannot raise.
            for a_ in s.value.args:
                if not (isinstance(a_, ast.Constant) or (isinstance(a_, ast.Name) and a_.id in env and env[a_.id].t != "rec")):
                    self.err(s, "logging call with an argument that is not a constant or a bound name (evaluating it could raise)")
            if s.value.keywords:
                self.err(s, "logging call with keyword arguments is not in the subset")
            self.notes.append("the logging call at line %d has no effect on the translated values and is left out" % s.lineno)
            return self.block(rest, env, k)
        if isinstance(s, ast.Expr) and self.is_append(s.value):
            # `t.append(e)` on a list of ints created in this function and not aliased: t = t + [e]
            call = s.value
            key = call.func.value.id
            if key not in env:
                self.err(s, "append to unbound %s" % key)
            seq = env[key]
            if seq.t != INTS:
                self.err(s, "append on %s is not in the subset" % seq.t)
            if "append" in self.locals:
                self.err(s, "the name append is bound in this function")
            self.need_own(s, key, env)
            if len(call.args) != 1 or call.keywords:
                self.err(s, "append takes exactly one argument")
            v = self.expr(call.args[0], env)
            if v.t != INT:
                self.err(s, "append of %s to a list of ints" % v.t)
            known = seq.n is not None and seq.n > 0
            nv = V("(%s ++ [%s])" % (seq.s, v.s), INTS, n=None if seq.n is None else seq.n + 1,
                   elo=v.lo if seq.n == 0 else _min(seq.elo, v.lo), ehi=v.hi if seq.n == 0 else _max(seq.ehi, v.hi))
            text = self.bind(key, nv, env)
            return self.flush(text) + self.block(rest, env, k)
        if isinstance(s, ast.Return):
            if self.loop:
                self.err(s, "return inside a loop is not in the subset")
            if s.value is None:
                self.err(s, "return without a value (None) is not in the subset")
            if isinstance(s.value, ast.Tuple):
                self.err(s, "returning a tuple is not in the subset")
            v = self.expr(s.value, env)
            if self.spec.get("mutates"):
                # a method that changes tables of its object: the translation returns the final tables (value semantics);
                # the Python return value must be a constant, it is dropped
                if not isinstance(s.value, ast.Constant):
                    self.err(s, "a method declared with `mutates` must return a constant")
                keys = [self.owner + "." + a for a in self.spec["mutates"]]
                self.notes.append("the method changes %s in place; the translation RETURNS their final values as a tuple "
                                  "(the Python return value `%s` is dropped)" % (", ".join(keys), ast.unparse(s.value)))
                v = V("(%s)" % ", ".join(env[k_].s for k_ in keys), "tup:" + ";".join(self.ltype(env[k_].t) for k_ in keys))
            return self.flush(self.result(v))
        if isinstance(s, ast.Raise):
            if s.exc is None or s.cause is not None:
                self.err(s, "re-raise / raise from is not in the subset")
            ex = s.exc.func if isinstance(s.exc, ast.Call) else s.exc
            if not isinstance(ex, ast.Name) or ex.id not in EXC:
                self.err(s, "raise of %s is not in the subset" % ast.unparse(ex))
            if ex.id in self.locals or self.mod.binds(ex.id):
                self.err(s, "the exception name %s is re-bound in this function or module" % ex.id)
            if isinstance(s.exc, ast.Call) and (s.exc.keywords or not all(isinstance(a, ast.Constant) for a in s.exc.args)):
                self.err(s, "exception arguments must be constants (evaluating them could itself raise)")
            if not self.monadic:
                raise NeedMonad()
            return "(.error %s)" % EXC[ex.id]
        if isinstance(s, ast.Assign):
            if len(s.targets) != 1:
                self.err(s, "chained assignment is not in the subset")
            return self.assign(s, s.targets[0], s.value, None, rest, env, k)
        if isinstance(s, ast.AnnAssign):
            if s.value is None:
                return self.block(rest, env, k)
            return self.assign(s, s.target, s.value, None, rest, env, k)
        if isinstance(s, ast.AugAssign):
            return self.assign(s, s.target, s.value, s.op, rest, env, k)
        if isinstance(s, ast.If):
            return self.if_stmt(s, rest, env, k)
        if isinstance(s, ast.For):
            return self.for_stmt(s, rest, env, k)
        if isinstance(s, ast.While):
            return self.while_stmt(s, rest, env, k)
        self.err(s, "statement %s is not in the subset" % type(s).__name__)

    # ownership: the keys of env["#own"].ltlen are the local variables that hold a mutable object (list / bytearray)
    # created in this function and not aliased by another name; only those may be item- or slice-assigned
    @staticmethod
    def own(env):
        return env["#own"].ltlen if "#own" in env else frozenset()

    @staticmethod
    def set_own(env, keys):
        env["#own"] = V("", "#own", ltlen=keys)

    def note_binding(self, key, v, value_node, env):
        """update ownership after `key = <value_node>`"""
        o = set(self.own(env))
        o.discard(key)
        if v.t in (INTS, BYTEARRAY):
            src = None
            if isinstance(value_node, ast.Name):
                src = value_node.id
            elif isinstance(value_node, ast.Attribute) and isinstance(value_node.value, ast.Name):
                src = value_node.value.id + "." + value_node.attr
            is_tuple = isinstance(value_node, ast.Tuple) or (isinstance(value_node, ast.Call) and isinstance(value_node.func, ast.Name)
                                                             and value_node.func.id == "tuple")
            if src is None and not isinstance(value_node, (ast.Subscript, ast.IfExp)) and not is_tuple:
                o.add(key)            # a new object: list display, [c] * n, bytearray(...), a call result, a slice copy
            elif src is not None:
                o.discard(src)        # two names for one object: neither may be mutated from here on
        self.set_own(env, o)

    def bind(self, key, v, env):
        """lean let binding python variable `key` to value v; updates env"""
        n = self.varname(key)
        env[key] = V(n, v.t, v.lo, v.hi, v.n, v.ltlen, v.elo, v.ehi, v.rec)
        return "let %s : %s := %s\n" % (n, self.ltype(v.t), v.s)

    def target_key(self, t, env, sub=False):
        if isinstance(t, ast.Name):
            return t.id
        if isinstance(t, ast.Attribute) and isinstance(t.value, ast.Name) and t.value.id in env and env[t.value.id].t == "rec":
            key = t.value.id + "." + t.attr
            if key not in env:
                self.err(t, "attribute %s is not declared for %s in the SRC table" % (t.attr, t.value.id))
            if sub and t.value.id == self.owner and t.attr in self.spec.get("mutates", ()):
                return key            # item assignment on a table the SRC entry declares as changed by the method
            self.err(t, "assignment to the attribute %s (a method that changes its object) is not in the subset" % key)
        self.err(t, "assignment target %s is not in the subset" % ast.unparse(t))

    def assign(self, s, target, value, op, rest, env, k):
        if isinstance(target, (ast.Tuple, ast.List)):
            if op is not None:
                self.err(s, "augmented tuple assignment")
            if isinstance(value, (ast.Tuple, ast.List)):
                if len(value.elts) != len(target.elts):
                    self.err(s, "tuple assignment of different lengths")
                vals = [self.expr(x, env) for x in value.elts]
                text = ""
                tmps = []
                for v in vals:           # simultaneous: all right-hand sides are evaluated first …
                    tn = self.tmp()
                    tmps.append(tn)
                    text += "let %s : %s := %s\n" % (tn, self.ltype(v.t), v.s)
                text = self.flush(text)
                for t, v, tn in zip(target.elts, vals, tmps):      # … then the targets are stored left to right
                    tv = V(tn, v.t, v.lo, v.hi, v.n, v.ltlen, v.elo, v.ehi)
                    if isinstance(t, ast.Subscript) and isinstance(t.slice, ast.Slice):
                        text += self.store_stride(s, t, tv, env)
                    else:
                        kk_ = self.target_key(t, env)
                        text += self.bind(kk_, tv, env)
                        self.note_binding(kk_, tv, value.elts[list(target.elts).index(t)], env)
                return text + self.block(rest, env, k)
            keys = [self.target_key(t, env) for t in target.elts]
            v = self.expr(value, env)
            if v.t != INTS or v.n is None:
                self.err(s, "tuple assignment from a sequence whose length is not known statically")
            if v.n != len(keys):
                self.err(s, "tuple assignment: %d targets for %d values (ValueError)" % (len(keys), v.n))
            text = ""
            for i, key in enumerate(keys):
                text += self.bind(key, V("(Py.intAt %s %d)" % (v.s, i), INT, v.elo, v.ehi), env)
            return self.flush(text) + self.block(rest, env, k)
        if isinstance(target, ast.Subscript):
            key = self.target_key(target.value, env, sub=True)
            if key not in env:
                self.err(s, "item assignment to unbound %s" % key)
            seq = env[key]
            self.need_own(s, key, env)
            if isinstance(target.slice, ast.Slice):
                if op is not None:
                    self.err(s, "augmented slice assignment is not in the subset")
                v = self.expr(value, env)
                text = self.flush("")
                text += self.store_stride(s, target, v, env)
                return text + self.block(rest, env, k)
            if seq.t != INTS:
                self.err(s, "item assignment on %s is not in the subset" % seq.t)
            if op is None:
                v = self.expr(value, env)          # Python evaluates the right-hand side first, then the index expression
                i = self.expr(target.slice, env)
            else:
                i = self.expr(target.slice, env)
                npre = len(self.pre)
                v = self.expr(value, env)
                value_raises = len(self.pre) > npre
            if i.t != INT:
                self.err(s, "index of type %s" % i.t)
            if op is not None:
                if not self.safe_index(seq, target.value, i):
                    # t[i] op= v: Python reads t[i] (IndexError / negative index rules), evaluates v, then stores
                    if value_raises:
                        self.err(s, "augmented item assignment whose value can raise is not in the subset")
                    cur = self.hoist(s, "Py.getItem %s %s" % (seq.s, i.s), INT, lo=seq.elo, hi=seq.ehi)
                else:
                    cur = V("(Py.intAt %s %s)" % (seq.s, i.s), INT, seq.elo, seq.ehi)
                v = self.binop(s, op, cur, v)
            if v.t != INT:
                self.err(s, "item assignment of %s" % v.t)
            if not self.safe_index(seq, target.value, i):
                # Python's rules: a negative index counts from the end, otherwise IndexError
                r = self.hoist(s, "Py.setItem %s %s %s" % (seq.s, i.s, v.s), INTS, n=seq.n, elo=_min(seq.elo, v.lo),
                               ehi=_max(seq.ehi, v.hi))
                text = self.flush("") + self.bind(key, r, env)
                return text + self.block(rest, env, k)
            nv = V("(Py.setAt %s %s %s)" % (seq.s, i.s, v.s), INTS, n=seq.n, elo=_min(seq.elo, v.lo), ehi=_max(seq.ehi, v.hi))
            text = self.bind(key, nv, env)
            return self.flush(text) + self.block(rest, env, k)
        key = self.target_key(target, env)
        v = self.expr(value, env)
        if op is not None:
            if key not in env:
                self.err(s, "augmented assignment to unbound %s" % key)
            if env[key].t in (INTS, BYTEARRAY):
                self.need_own(s, key, env)          # `+=` on a list / bytearray mutates the object in place
            v = self.binop(s, op, env[key], v)
        if v.t == "rec":
            self.err(s, "assigning an object is not in the subset")
        if v.t == "dict":
            # a constant dict is kept symbolically (no Lean value); the only use in the subset is `for k, v in d.items()`
            if op is not None or key in env or self.loop:
                self.err(s, "re-assignment / in-loop assignment of a dict is not in the subset")
            if sum(1 for n in ast.walk(self.node) if isinstance(n, ast.Name) and n.id == key) != 2:
                self.err(s, "the dict %s must be used exactly once, in `for k, v in %s.items()`" % (key, key))
            env[key] = v
            return self.block(rest, env, k)
        if key in env and self.ltype(env[key].t) != self.ltype(v.t):
            self.err(s, "variable %s changes type from %s to %s" % (key, env[key].t, v.t))
        # a sequence that is re-bound invalidates `index < len(seq)` facts about it
        for kk, vv in list(env.items()):
            if kk != "#own" and key in vv.ltlen:
                env[kk] = V(vv.s, vv.t, vv.lo, vv.hi, vv.n, vv.ltlen - {key}, vv.elo, vv.ehi, vv.rec)
        text = self.bind(key, v, env)
        self.note_binding(key, v, value if op is None else None, env)
        return self.flush(text) + self.block(rest, env, k)

    def need_own(self, s, key, env):
        if key in self.own(env):
            return
        self.err(s, "%s is mutated in place but is (or may be) shared with the caller or another name "
                    "(a parameter, a tuple, or an aliased object): not in the subset" % key)

    def store_stride(self, s, target, v, env):
        """`seq[A::K] = v` on a bytearray / int list variable, K >= 2: the raising `Py.strideSetE`"""
        key = self.target_key(target.value, env)
        if key not in env:
            self.err(s, "slice assignment to unbound %s" % key)
        seq = env[key]
        if seq.t == BYTES:
            self.err(s, "slice assignment on an immutable bytes object (TypeError)")
        self.need_own(s, key, env)
        if seq.t not in (BYTEARRAY, INTS):
            self.err(s, "slice assignment on %s is not in the subset" % seq.t)
        if not isinstance(target.slice, ast.Slice) or target.slice.step is None:
            self.err(s, "plain slice assignment (it can change the length) is not in the subset")
        start, step = self.stride_of(s, target.slice, env)
        if step < 2:
            self.err(s, "slice assignment with step 1 (it can change the length) is not in the subset")
        ok = (seq.t == BYTEARRAY and v.t in (BYTES, BYTEARRAY)) or (seq.t == INTS and v.t == INTS)
        if not ok:
            self.err(s, "slice assignment of %s into %s is not in the subset" % (v.t, seq.t))
        r = self.hoist(s, "Py.strideSetE %s %d %d %s" % (seq.s, start, step, v.s), seq.t, n=seq.n, elo=_min(seq.elo, v.elo),
                       ehi=_max(seq.ehi, v.ehi))
        return self.flush(self.bind(key, r, env))

    def if_stmt(self, s, rest, env, k):
        c = self.cond(s.test, env)
        pre = self.flush("")
        if c == "True" and isinstance(s.test, ast.Name):
            return pre + self.block(list(s.body) + rest, env, k)      # static module constant (noted by `cond`)
        if c == "True":
            # statically true test (isinstance of a declared parameter): only the body exists
            if s.orelse:
                self.notes.append("the else branch at line %d is unreachable under the declared parameter classes "
                                  "and is not translated" % s.orelse[0].lineno)
            else:
                self.notes.append("the implicit `return None` when the test at line %d is false is unreachable under "
                                  "the declared parameter classes" % s.lineno)
            return pre + self.block(list(s.body) + rest, env, k)
        if c == "False":
            return pre + self.block(list(s.orelse) + rest, env, k)
        if self.has_exit(s.body) or self.has_exit(s.orelse):
            if self.loop and self.has_exit(s.body + s.orelse, returns_only=True):
                self.err(s, "return inside a loop is not in the subset")
            a = self.block(list(s.body) + (rest if not self.terminates(s.body) else []), env, k)
            b = self.block(list(s.orelse) + (rest if not self.terminates(s.orelse) else []), env, k)
            if self.terminates(s.body) and self.terminates(s.orelse) and rest:
                self.err(rest[0], "unreachable statement")
            return pre + "if %s then (\n%s) else (\n%s)" % (c, indent(a), indent(b))
        asg_a, asg_b = self.assigned(s.body, env), self.assigned(s.orelse, env)
        names = [n for n in asg_a + [x for x in asg_b if x not in asg_a]
                 if n in env or (n in asg_a and n in asg_b)]
        if not names:
            # Nothing that is live afterwards is assigned.  The `if` may be left out of the translation ONLY when both
            # branches are effect-free and cannot raise: every statement is validated (a bare call, an item store through a
            # call, … is a TranslationError from `block`; an operation that can raise is refused here) — nothing is dropped
            # unseen.
            saved, g0 = self.monadic, self.guard
            snap = (self.fresh, set(self.names), len(self.notes), list(self.pre))
            try:
                self.monadic = False
                for br in (s.body, s.orelse):
                    self.block(list(br), env, lambda e2: "()")
            except NeedMonad:
                self.guard = g0
                self.monadic = saved
                self.err(s, "an `if` whose branches assign no variable that is live afterwards but contain an operation "
                            "that can raise is not in the subset (it can neither be dropped nor expressed)")
            finally:
                self.monadic = saved
            self.fresh, self.names, self.pre = snap[0], snap[1], snap[3]
            del self.notes[snap[2]:]
            if any(not isinstance(st, ast.Pass) for st in list(s.body) + list(s.orelse)):
                self.notes.append("the `if` at line %d is not translated: its branches were checked statement by statement — "
                                  "they assign nothing that is read afterwards, cannot raise, and contain no call other than "
                                  "logging" % s.lineno)
            return pre + self.block(rest, env, k)
        ends = []
        def kk(e2):
            ends.append(e2)
            missing = [n for n in names if n not in e2]
            if missing:
                self.err(s, "variable %s is not bound on every path" % missing[0])
            t = self.tuple_of(names, e2)
            return "(.ok %s)" % t if False else t
        # the branches are pure blocks when nothing in them raises; otherwise the whole `if` is monadic
        saved = self.monadic
        g0 = self.guard
        try:
            self.monadic = False
            a = self.block(list(s.body), env, kk)
            b = self.block(list(s.orelse), env, kk)
            mon = False
        except NeedMonad:
            self.guard = g0               # the exception may have left a conditional position half-way
            if not saved:
                self.monadic = saved
                raise
            self.monadic = True
            ends = []
            def kk2(e2):
                return "(.ok %s)" % kk(e2)
            a = self.block(list(s.body), env, kk2)
            b = self.block(list(s.orelse), env, kk2)
            mon = True
        finally:
            self.monadic = saved
        ea, eb = ends[0], ends[-1]
        env2 = dict(env)
        self.set_own(env2, self.own(ea) & self.own(eb))
        for n in names:
            if ea[n].t != eb[n].t:
                self.err(s, "variable %s has type %s in one branch and %s in the other" % (n, ea[n].t, eb[n].t))
            env2[n] = union(ea[n], eb[n], self.varname(n))
        st = self.tmp("st") if len(names) > 1 else env2[names[0]].s
        ty = self.tuple_type(names, env2)
        if mon:
            text = pre + "(if %s then (\n%s) else (\n%s) : R (%s)) >>= fun %s =>\n" % (c, indent(a), indent(b), ty, st)
        else:
            text = pre + "let %s : %s := if %s then (\n%s) else (\n%s)\n" % (st, ty, c, indent(a), indent(b))
        text += self.unpack_tuple(st, names, env2)
        return text + self.block(rest, env2, k)

    def terminates(self, stmts):
        if not stmts:
            return False
        s = stmts[-1]
        if isinstance(s, (ast.Return, ast.Raise)):
            return True
        if isinstance(s, ast.If):
            return self.terminates(s.body) and self.terminates(s.orelse)
        return False

    def for_stmt(self, s, rest, env, k):
        if s.orelse:
            self.err(s, "for ... else is not in the subset")
        it = s.iter
        pair = None
        if isinstance(s.target, ast.Tuple) and len(s.target.elts) == 2 and all(isinstance(x, ast.Name) for x in s.target.elts) \
           and isinstance(it, ast.Call) and isinstance(it.func, ast.Attribute) and it.func.attr == "items" and not it.args \
           and not it.keywords and isinstance(it.func.value, ast.Name) and it.func.value.id in env \
           and env[it.func.value.id].t == "dict":
            # `for k, v in D.items()` over a constant dict: its (key, value) pairs in insertion order
            pair = (s.target.elts[0].id, s.target.elts[1].id)
            items = env[it.func.value.id].rec
            for nm in pair:
                if nm in env:
                    self.err(s, "loop variable %s is already bound" % nm)
            if pair[0] == pair[1]:
                self.err(s, "loop target repeats a name")
        elif isinstance(s.target, ast.Tuple) and len(s.target.elts) == 2 and all(isinstance(x, ast.Name) for x in s.target.elts) \
                and isinstance(it, ast.Name) and it.id not in env and it.id not in self.locals \
                and self.mod.constant(it.id, "%s:%d" % (self.mod.relpath, s.lineno)).t == "pairs":
            # `for a, b in TABLE` over a module-level constant table of int pairs
            pair = (s.target.elts[0].id, s.target.elts[1].id)
            items = self.mod.constant(it.id, "").rec
            for nm in pair:
                if nm in env:
                    self.err(s, "loop variable %s is already bound" % nm)
            if pair[0] == pair[1]:
                self.err(s, "loop target repeats a name")
            self.notes.append("the module-level table %s is the constant list of pairs %s" % (it.id, items))
        elif not isinstance(s.target, ast.Name):
            self.err(s, "loop target must be a single name (or `k, v` over the items of a constant dict / a constant table of pairs)")
        var = s.target.id if pair is None else self.tmp("kv")
        if var in env and var != "_":
            self.err(s, "loop variable %s is already bound (its value after the loop is not modelled)" % var)
        asg = [n for n in self.assigned(s.body, env)]
        if pair is not None:
            asg = [n for n in asg if n not in pair]
        lv = None
        if pair is not None:
            iters = "([%s] : List (Int × Int))" % ", ".join("(%s, %s)" % (lit(a), lit(b)) for a, b in items)
        elif isinstance(it, ast.Call) and isinstance(it.func, ast.Name) and it.func.id == "range" and not it.keywords \
           and 1 <= len(it.args) <= 3:
            if "range" in self.locals or self.mod.binds("range"):
                self.err(s, "the name range is re-bound in this function or module")
            args = [self.expr(a, env) for a in it.args]
            if any(a.t != INT for a in args):
                self.err(s, "range() of a non-int")
            if len(args) == 1:
                iters = "(Py.range %s)" % args[0].s
                lt = set()
                a0 = it.args[0]
                if isinstance(a0, ast.Call) and isinstance(a0.func, ast.Name) and a0.func.id == "len" and len(a0.args) == 1:
                    sq = a0.args[0]
                    kname = sq.id if isinstance(sq, ast.Name) else (
                        sq.value.id + "." + sq.attr if isinstance(sq, ast.Attribute) and isinstance(sq.value, ast.Name) else None)
                    if kname is not None and kname not in asg:
                        lt.add(kname)
                lv = V(lname(var), INT, 0, None if args[0].hi is None else args[0].hi - 1, ltlen=lt)
            elif len(args) == 2:
                iters = "(Py.range2 %s %s)" % (args[0].s, args[1].s)
                lv = V(lname(var), INT, args[0].lo, None if args[1].hi is None else args[1].hi - 1)
            else:
                if args[2].lo is None or args[2].lo != args[2].hi or args[2].lo <= 0:
                    self.err(s, "range step must be a positive constant")
                iters = "(Py.range3 %s %s %s)" % (args[0].s, args[1].s, args[2].s)
                lv = V(lname(var), INT, args[0].lo, None if args[1].hi is None else args[1].hi - 1)
        elif pair is None:
            seq = self.expr(it, env)
            itk = it.id if isinstance(it, ast.Name) else (
                it.value.id + "." + it.attr if isinstance(it, ast.Attribute) and isinstance(it.value, ast.Name) else None)
            if seq.t in (INTS, BYTEARRAY) and (itk is None or itk in asg):
                if itk is not None:
                    self.err(s, "the loop body assigns to the sequence it iterates over (%s)" % itk)
            if seq.t in (BYTES, BYTEARRAY):
                iters = "(Py.bytesInts %s)" % seq.s
                lv = V(lname(var), INT, 0, 255)
            elif seq.t == INTS:
                iters = seq.s
                lv = V(lname(var), INT, seq.elo, seq.ehi)
            else:
                self.err(s, "iteration over %s is not in the subset" % seq.t)
        pre = self.flush("")
        if var in asg:
            asg.remove(var)
        state = [n for n in asg if n in env]
        temps = [n for n in asg if n not in env]
        if not state:
            self.err(s, "loop assigns no variable that is live before it")
        benv = dict(env)
        for n in state:
            # what is known about a state variable at the head of an arbitrary iteration: its type, and the length
            # of a list that is only ever item-assigned in the body
            whole = self.whole_assigned(s.body, n)
            v = env[n]
            benv[n] = V(v.s, v.t, None, None, None if whole else v.n, (), None, None, v.rec)
        for kk_, vv in list(benv.items()):
            dead = vv.ltlen & set(state)
            if dead and kk_ != "#own":
                benv[kk_] = V(vv.s, vv.t, vv.lo, vv.hi, vv.n, vv.ltlen - dead, vv.elo, vv.ehi, vv.rec)
        if pair is not None:
            benv[pair[0]] = V(lname(pair[0]), INT, min(a for a, _ in items), max(a for a, _ in items))
            benv[pair[1]] = V(lname(pair[1]), INT, min(b for _, b in items), max(b for _, b in items))
        elif var != "_":
            benv[var] = lv
        ends = []
        def kk(e2):
            ends.append(e2)
            for n in state:
                if e2[n].t != env[n].t:
                    self.err(s, "loop changes the type of %s" % n)
            return self.tuple_of(state, e2)
        saved = self.monadic
        g0 = self.guard
        self.loop += 1
        try:
            try:
                self.monadic = False
                body = self.block(list(s.body), benv, kk)
                mon = False
            except NeedMonad:
                self.guard = g0
                if not saved:
                    raise
                self.monadic = True
                body = self.block(list(s.body), benv, lambda e2: "(.ok %s)" % kk(e2))
                mon = True
        finally:
            self.monadic = saved
            self.loop -= 1
        env2 = dict(env)
        self.set_own(env2, self.own(env) & self.own(ends[0]) if ends else self.own(env))
        for n in temps + [var] + list(pair or ()):
            env2.pop(n, None)
        for n in state:
            env2[n] = benv[n]
        ty = self.tuple_type(state, env)
        if len(state) == 1:
            st_in = env[state[0]].s
            binder = "(%s : %s)" % (st_in, ty)
            unpack = ""
            st_out = st_in
        else:
            st_in = self.tmp("st")
            binder = "(%s : %s)" % (st_in, ty)
            unpack = self.unpack_tuple(st_in, state, env)
            st_out = self.tmp("st")
        if pair is not None:
            unpack += "let %s : Int := %s.1\nlet %s : Int := %s.2\n" % (lname(pair[0]), var, lname(pair[1]), var)
            lam = "fun %s (%s : Int × Int) =>\n%s" % (binder, var, indent(unpack + body))
        else:
            lam = "fun %s (%s : Int) =>\n%s" % (binder, lname(var) if var != "_" else "_", indent(unpack + body))
        init = self.tuple_of(state, env)
        if mon:
            text = pre + "(List.foldlM (%s) %s %s : R (%s)) >>= fun %s =>\n" % (lam, init, iters, ty, st_out)
        else:
            text = pre + "let %s : %s := List.foldl (%s) %s %s\n" % (st_out, ty, lam, init, iters)
        text += self.unpack_tuple(st_out, state, env2)
        return text + self.block(rest, env2, k)

    def while_stmt(self, s, rest, env, k):
        """`while c: body` -> Py.whileLoop with the fuel expression of the SRC entry (key `fuel`, a Python expression over
        the variables live at the loop, evaluated once before the loop)"""
        if s.orelse:
            self.err(s, "while ... else is not in the subset")
        for n in ast.walk(s):
            if isinstance(n, (ast.Break, ast.Continue, ast.Return, ast.Raise)):
                self.err(n, "%s inside a while loop is not in the subset" % type(n).__name__)
        if "fuel" not in self.spec:
            self.err(s, "while loop: the SRC entry declares no `fuel` (an int expression bounding the number of iterations)")
        fuel_src = self.spec["fuel"]
        if not isinstance(fuel_src, str):
            # several loops: one expression per `while`, in source order
            whiles = sorted([n for n in ast.walk(self.node) if isinstance(n, ast.While)], key=lambda n: (n.lineno, n.col_offset))
            if len(fuel_src) != len(whiles):
                self.err(s, "the SRC entry declares %d `fuel` expressions for %d while loops" % (len(fuel_src), len(whiles)))
            fuel_src = fuel_src[[id(n) for n in whiles].index(id(s))]
        if not self.monadic:
            raise NeedMonad()
        asg = self.assigned(s.body, env)
        state = [n for n in asg if n in env]
        if not state:
            self.err(s, "while loop assigns no variable that is live before it")
        try:
            fuel = self.expr(ast.parse(fuel_src, mode="eval").body, env)
        except SyntaxError:
            self.err(s, "the `fuel` of the SRC entry is not a Python expression")
        if fuel.t != INT or self.pre:
            self.err(s, "the `fuel` expression must be a plain int expression")
        pre = self.flush("")
        keep = {n for n in state if env[n].t == INT and env[n].lo is not None}
        while True:
            snap = (self.fresh, set(self.names), len(self.notes))
            benv = dict(env)
            for n in state:
                v = env[n]
                whole = self.whole_assigned(s.body, n)
                benv[n] = V(v.s, v.t, v.lo if n in keep else None, None, None if whole else v.n, (), None, None, v.rec)
            for kk_, vv in list(benv.items()):
                dead = vv.ltlen & set(state)
                if dead and kk_ != "#own":
                    benv[kk_] = V(vv.s, vv.t, vv.lo, vv.hi, vv.n, vv.ltlen - dead, vv.elo, vv.ehi, vv.rec)
            ends = []
            def kk(e2):
                ends.append(e2)
                for n in state:
                    if e2[n].t != env[n].t:
                        self.err(s, "loop changes the type of %s" % n)
                return self.tuple_of(state, e2)
            saved = self.monadic
            g0 = self.guard
            self.loop += 1
            try:
                try:
                    # first as a pure loop (nothing in the condition or the body can raise) …
                    self.monadic = False
                    c = "decide %s" % self.cond(s.test, benv)
                    body = self.block(list(s.body), benv, kk)
                    mon = False
                except NeedMonad:
                    # … otherwise condition and body are R-valued (`Py.whileLoopM`); `and` / `or` in the condition
                    # short-circuit explicitly, so a raising operand is evaluated exactly when Python evaluates it
                    self.guard = g0
                    self.fresh, self.names = snap[0], set(snap[1])
                    del self.notes[snap[2]:]
                    del ends[:]
                    self.pre = []
                    self.monadic = True
                    c = self.condM(s.test, benv)
                    body = self.block(list(s.body), benv, lambda e2: "(.ok %s)" % kk(e2))
                    mon = True
            finally:
                self.monadic = saved
                self.loop -= 1
            bad = {n for n in keep if ends[0][n].lo is None or ends[0][n].lo < env[n].lo}
            if not bad:
                break
            keep -= bad                     # `n >= its entry value` is not preserved by the body: drop it and redo
            self.fresh, self.names = snap[0], snap[1]
            del self.notes[snap[2]:]
        env2 = dict(env)
        self.set_own(env2, self.own(env) & self.own(ends[0]))
        for n in asg:
            if n not in state:
                env2.pop(n, None)
        for n in state:
            env2[n] = benv[n]
        ty = self.tuple_type(state, env)
        st_in = self.tmp("st") if len(state) > 1 else env[state[0]].s
        unpack = self.unpack_tuple(st_in, state, env)
        st_out = self.tmp("st") if len(state) > 1 else st_in
        text = pre + "(Py.%s (fun (%s : %s) =>\n%s) (fun (%s : %s) =>\n%s) (Int.toNat %s) %s : R (%s)) >>= fun %s =>\n" % (
            "whileLoopM" if mon else "whileLoop", st_in, ty, indent(unpack + c), st_in, ty, indent(unpack + body), fuel.s,
            self.tuple_of(state, env), ty, st_out)
        text += self.unpack_tuple(st_out, state, env2)
        self.notes.append("the while loop at line %d runs for at most `%s` iterations (SRC entry); if it has not stopped by "
                          "then the result is Err.fuel" % (s.lineno, fuel_src))
        return text + self.block(rest, env2, k)

    def condM(self, e, env):
        """Lean text of type `R Bool` for a condition whose operands can raise; `a and b` evaluates `b` only when `a` is
        true, `a or b` only when `a` is false (Python's short-circuit rule)"""
        if isinstance(e, ast.BoolOp):
            is_and = isinstance(e.op, ast.And)
            out = None
            for x in reversed(e.values):
                if out is None:
                    out = self.condM(x, env)
                    continue
                if isinstance(x, ast.BoolOp):
                    inner = self.condM(x, env)
                    b = self.tmp("c")
                    out = "(%s) >>= fun (%s : Bool) =>\nif %s = true then (\n%s) else (\n%s)" % (
                        inner, b, b, indent(out if is_and else "(.ok true)"), indent("(.ok false)" if is_and else out))
                else:
                    c = self.cond(x, env)
                    out = self.flush("if %s then (\n%s) else (\n%s)" % (
                        c, indent(out if is_and else "(.ok true)"), indent("(.ok false)" if is_and else out)))
            return out
        c = self.cond(e, env)
        return self.flush("(.ok (decide %s))" % c)

    @staticmethod
    def whole_assigned(stmts, key):
        for st in stmts:
            for n in ast.walk(st):
                tg = []
                if isinstance(n, ast.Expr) and Fn.is_append(n.value) and n.value.func.value.id == key:
                    return True           # append changes the length
                if isinstance(n, ast.Assign):
                    tg = n.targets
                elif isinstance(n, (ast.AugAssign, ast.AnnAssign)):
                    tg = [n.target]
                for t in tg:
                    for x in (t.elts if isinstance(t, (ast.Tuple, ast.List)) else [t]):
                        if isinstance(x, ast.Name) and x.id == key:
                            return True
                        if isinstance(x, ast.Attribute) and isinstance(x.value, ast.Name) and x.value.id + "." + x.attr == key:
                            return True
        return False

def indent(text, by="  "):
    return "\n".join(by + l if l else l for l in text.rstrip("\n").split("\n"))

def init_fields(fn, cls):
    """[(attribute, default expr | None)] for a class whose __init__ is `self.a = a; self.b = b; …` over its
    own parameters, in parameter order"""
    init = None
    for n in cls.body:
        if isinstance(n, ast.FunctionDef) and n.name == "__init__":
            init = n
    if init is None:
        fn.err(cls, "class %s has no __init__" % cls.name)
    a = init.args
    if a.vararg or a.kwarg or a.kwonlyargs or a.posonlyargs:
        fn.err(init, "constructor with *args / keyword-only parameters")
    params = [x.arg for x in a.args[1:]]
    defaults = [None] * (len(params) - len(a.defaults)) + list(a.defaults)
    stored = {}
    for st in init.body:
        if isinstance(st, ast.Expr) and isinstance(st.value, ast.Constant):
            continue
        ok = isinstance(st, ast.Assign) and len(st.targets) == 1 and isinstance(st.targets[0], ast.Attribute) \
            and isinstance(st.targets[0].value, ast.Name) and st.targets[0].value.id == a.args[0].arg \
            and isinstance(st.value, ast.Name) and st.value.id in params
        if not ok:
            fn.err(st, "constructor of %s does more than store its arguments" % cls.name)
        stored[st.value.id] = st.targets[0].attr
    if set(stored) != set(params):
        fn.err(init, "constructor of %s does not store every parameter" % cls.name)
    return [(stored[p], d) for p, d in zip(params, defaults)]

# ------------------------------------------------------------------------------------------------ one function

def parse_type(t):
    """SRC table type -> internal: 'int' | 'bytes' | 'ints' | ('rec', Class, [(field, type)…])"""
    if isinstance(t, str):
        return ({"int": INT, "bytes": BYTES, "ints": INTS, "bool": BOOL}[t],)
    return ("rec", t[0], [(f, parse_type(ft)[0]) for f, ft in t[1]])

def translate_function(mod, spec):
    """spec keys: func (qualname), name (lean def name, default = qualname), params {name: type}, ranges
    {parameter: (lo, hi)}, fuel (expression), prefix_upto (variable), from_var (variable)"""
    node = mod.find(spec["func"])
    if not isinstance(node, ast.FunctionDef):
        raise TranslationError("%s: %s is not a function" % (mod.relpath, spec["func"]))
    a = node.args
    if a.vararg or a.kwarg or a.kwonlyargs or a.posonlyargs:
        raise TranslationError("%s: *args / **kwargs / keyword-only parameters are not in the subset" % spec["func"])
    lean_name = spec.get("name", spec["func"])
    spec = dict(spec, name=lean_name)
    deco_notes = []
    for d in node.decorator_list:
        dn = d.func if isinstance(d, ast.Call) else d
        dn = dn.id if isinstance(dn, ast.Name) else ast.unparse(dn)
        if dn == "staticmethod":
            continue
        if dn == "lru_cache":
            deco_notes.append("decorator @%s is treated as transparent (a cache of a function of its arguments; the "
                              "translated function is the undecorated one)" % ast.unparse(d))
            continue
        raise TranslationError("%s:%d %s: decorator @%s is not in the subset" % (mod.relpath, d.lineno, spec["func"], ast.unparse(d)))
    body = list(node.body)
    pyparams = [x.arg for x in a.args]
    how = "the whole function"
    if "prefix_upto" in spec:
        var = spec["prefix_upto"]
        last = body[-1]
        if not isinstance(last, ast.Return) or Fn.has_exit(body[:-1], returns_only=True):
            raise TranslationError("%s: prefix translation needs a single final return" % spec["func"])
        if not any(isinstance(n, ast.Name) and n.id == var for n in ast.walk(last)):
            raise TranslationError("%s: the final return does not use %s" % (spec["func"], var))
        how = "the value of `%s` when `%s` (line %d) is reached; the rest of that line is NOT translated" % (
            var, mod.segment(last).strip(), last.lineno)
        body = body[:-1] + [ast.copy_location(ast.Return(value=ast.copy_location(ast.Name(id=var, ctx=ast.Load()), last)), last)]
    if "from_var" in spec:
        var = spec["from_var"]
        i = 0
        while i < len(body) and isinstance(body[i], ast.Expr) and isinstance(body[i].value, ast.Constant):
            i += 1
        first = body[i] if i < len(body) else None
        ok = isinstance(first, ast.Assign) and len(first.targets) == 1 and isinstance(first.targets[0], ast.Name) \
            and first.targets[0].id == var
        if not ok:
            raise TranslationError("%s: suffix translation needs the first statement to assign %s" % (spec["func"], var))
        how = "the statements AFTER `%s` (line %d), as a function of the value of `%s`; that line is NOT translated" % (
            mod.segment(first).strip(), first.lineno, var)
        body = body[i + 1:]
        pyparams = [var]
    ptypes = spec.get("params", {})
    params = []
    for p in pyparams:
        if p not in ptypes:
            ann = None
            for x in a.args:
                if x.arg == p and isinstance(x.annotation, ast.Name):
                    ann = x.annotation.id
            if ann in ("int", "bytes"):
                ptypes = dict(ptypes, **{p: ann})
            else:
                raise TranslationError("%s: no type for parameter %s in the SRC table" % (spec["func"], p))
        params.append((p, parse_type(ptypes[p])))
    if a.defaults and "from_var" not in spec:
        pass      # defaults only matter at call sites; calls of translated functions must pass every argument

    def attempt(monadic):
        fn = Fn(mod, node, spec)
        fn.monadic = monadic
        fn.notes.extend(deco_notes)
        env = {}
        binders = []
        for p, pt in params:
            if pt[0] == "rec":
                env[p] = V(p, "rec", rec=pt[1])
                for fld, ft in pt[2]:
                    key = p + "." + fld
                    env[key] = V(fn.varname(key), ft)
                    binders.append("(%s : %s)" % (fn.varname(key), ft))
            else:
                env[p] = V(lname(p), pt[0])
                binders.append("(%s : %s)" % (lname(p), pt[0]))
        # declared ranges become hypotheses of the definition: it cannot be applied outside them
        for key, (lo, hi) in spec.get("ranges", {}).items():
            if key not in env or env[key].t != INT:
                raise TranslationError("%s: range declared for %s, which is not an int parameter" % (spec["func"], key))
            v = env[key]
            env[key] = V(v.s, INT, lo, hi)
            binders.append("(h_%s : %s ≤ %s ∧ %s ≤ %s)" % (v.s, lit(lo), v.s, v.s, lit(hi)))
            fn.notes.append("translated for %d <= %s <= %d only (hypothesis h_%s)" % (lo, key, hi, v.s))
        if spec.get("mutates"):
            if not params or params[0][1][0] != "rec":
                raise TranslationError("%s: `mutates` needs a method whose first parameter is declared as an object" % spec["func"])
            fn.owner = params[0][0]
            keys = []
            for a_ in spec["mutates"]:
                key = fn.owner + "." + a_
                if key not in env or env[key].t != INTS:
                    raise TranslationError("%s: `mutates` names %s, which is not a declared int-list attribute" % (spec["func"], key))
                keys.append(key)
            # the tables are reached only through `self.<attr>` (any other name for them ends the permission to assign)
            fn.set_own(env, keys)
        def fall(e2):
            raise TranslationError("%s:%d %s: control can reach the end of the function (returns None): not in the subset" % (
                mod.relpath, node.end_lineno or node.lineno, spec["func"]))
        text = fn.block(body, env, fall)
        return fn, binders, text

    try:
        fn, binders, text = attempt(False)
        monadic = False
    except NeedMonad:
        fn, binders, text = attempt(True)
        monadic = True
    rt = fn.ltype(fn.rettype)
    rett = "R (%s)" % rt if monadic else rt
    src = mod.segment(node).replace("-/", "- /").replace("/-", "/ -")
    doc = "/-- `%s` of %s, lines %d-%d — %s.\n" % (spec["func"], mod.relpath, node.lineno, node.end_lineno, how)
    for nt in dict.fromkeys(fn.notes):
        doc += "    note: %s\n" % nt
    doc += "```python\n%s\n```\n-/" % src
    lean = "%s\ndef %s %s : %s :=\n%s" % (doc, lean_name, " ".join(binders), rett, indent(text))
    mod.funcs[spec["func"] if "prefix_upto" not in spec and "from_var" not in spec else "#" + lean_name] = {
        "lean": lean_name, "params": params, "ret": fn.rettype, "monadic": monadic,
        "ranges": dict(spec.get("ranges", {})), "mutates": list(spec.get("mutates", ()))}
    mod.defs.append(lean)
    return lean_name, monadic

# ------------------------------------------------------------------------------------------------ driver

SRC = []
LAST_REPORT = []

def load_tables():
    del SRC[:]
    d = os.path.join(os.path.dirname(os.path.abspath(__file__)), "extract_tables")
    for fn in sorted(os.listdir(d)):
        if fn.endswith(".py") and not fn.startswith("_"):
            ns = {}
            exec(compile(open(os.path.join(d, fn)).read(), fn, "exec"), ns)
            SRC.extend(ns.get("SRC", []))

def generate():
    """translate every function of the SRC tables; returns (errors, changed lean modules, report).
    A module file is rewritten only when its text changes; when a function of a module cannot be translated
    the stale file is left in place and the error is reported (check.py treats that as a broken tie)."""
    load_tables()
    errors, changed, report = [], [], []
    os.makedirs(OUT, exist_ok=True)
    by_mod = {}
    for spec in SRC:
        by_mod.setdefault((spec["lean"], spec["file"]), []).append(spec)
    for (lean_mod, relpath), specs in sorted(by_mod.items()):
        ok = True
        try:
            mod = Module(relpath, lean_mod)
        except Exception as e:
            errors.append("Src.%s: cannot read %s: %r" % (lean_mod, relpath, e))
            for spec in specs:
                report.append(dict(_rep(spec, lean_mod), translated=False, error="cannot read the file"))
            continue
        for spec in specs:
            try:
                name, monadic = translate_function(mod, spec)
                report.append(dict(_rep(spec, lean_mod), translated=True, lean="Acra.Gen.Src.%s.%s" % (lean_mod, name)))
            except TranslationError as e:
                ok = False
                errors.append("Src.%s.%s: %s" % (lean_mod, spec.get("name", spec["func"]), e))
                report.append(dict(_rep(spec, lean_mod), translated=False, error=str(e)))
            except RecursionError as e:
                ok = False
                errors.append("Src.%s.%s: %r" % (lean_mod, spec.get("name", spec["func"]), e))
                report.append(dict(_rep(spec, lean_mod), translated=False, error=repr(e)))
        if not ok:
            continue
        lines = ["-- GENERATED by harness/translate.py from %s — do not edit" % relpath,
                 "import Acra.Py.IntOps",
                 "namespace Acra.Gen.Src.%s" % lean_mod,
                 "open Acra Acra.Py",
                 "set_option linter.unusedVariables false", ""]
        for c in mod.const_order:
            lines.append(mod.consts[c][0])
            lines.append("")
        for d in mod.defs:
            lines.append(d)
            lines.append("")
        lines.append("end Acra.Gen.Src.%s" % lean_mod)
        text = "\n".join(lines) + "\n"
        path = os.path.join(OUT, lean_mod + ".lean")
        old = open(path).read() if os.path.exists(path) else None
        if old != text:
            with open(path, "w") as f:
                f.write(text)
            changed.append("Src." + lean_mod)
    LAST_REPORT[:] = report
    return errors, changed, report

def _rep(spec, lean_mod):
    return {"python": "%s:%s" % (spec["file"], spec["func"]), "property": spec.get("prop"),
            "tie_theorem": ("Acra.Props.%s.%s" % (spec["prop"], spec["theorem"])) if spec.get("theorem") else None,
            "part": ("prefix up to `%s`" % spec["prefix_upto"]) if "prefix_upto" in spec else
                    ("statements after the assignment of `%s`" % spec["from_var"]) if "from_var" in spec else "whole function"}

def main():
    errors, changed, report = generate()
    print(json.dumps({"errors": errors, "changed": changed, "translated": [r["python"] for r in report if r["translated"]]}, indent=1))
    return 1 if errors else 0

if __name__ == "__main__":
    sys.exit(main())
