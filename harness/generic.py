"""Generic parts of the cross-cutting properties, driven by the families' CLASSGEN registries:

  C08  every decoder terminates on arbitrary / mutated bytes (watchdog + allocation ceiling)
  C13  pack is a function of the fields, unpack a function of the bytes (histories, two live objects)
  C14  equality never equates objects that encode differently; decode(encode(a)) == a; foreign operands
"""
import os, json, tracemalloc
from . import core, gen
from .core import ADAPTERS, run_line_impl, run_ops_impl, pyval, parse_val, canon, guarded, hexb
from .runner import Failure

def _classgens():
    from . import families
    return families.classgens()

def corpus_lines(pid):
    p = os.path.join(core.VERIF, "harness", "corpus", pid + ".txt")
    if not os.path.exists(p):
        return []
    return [l.rstrip("\n") for l in open(p) if l.strip() and not l.startswith("#")]

def _valid_bytes(cg, opts, sets):
    """pack a valid object on the implementation; returns bytes or None"""
    a = ADAPTERS[cg.cls]
    o, dirty, out = run_ops_impl(a, [pyval(parse_val(x)) for x in opts], sets + [cg.pack_op()])
    r = out[-1]
    if r.startswith("ok:x"):
        return bytes.fromhex(r[4:])
    return None

def _split_top(txt):
    """elements of a canonical list text `[a;b;…]` (top level only)"""
    inner, out, depth, cur = txt[1:-1], [], 0, ""
    for ch in inner:
        if ch in "[{":
            depth += 1
        elif ch in "]}":
            depth -= 1
        if ch == ";" and depth == 0:
            out.append(cur); cur = ""
        else:
            cur += ch
    if cur:
        out.append(cur)
    return out

def _dup_elements(rng, f):
    """a copy of the field dict in which every list-valued field carries EQUAL elements (first element repeated,
    next to each other and apart): containers whose elements are byte-identical"""
    g, changed = dict(f), False
    for k, v in f.items():
        if isinstance(v, str) and v.startswith("[") and v.endswith("]") and len(v) > 2:
            el = _split_top(v)
            if not el:
                continue
            e0 = el[0]
            g[k] = "[" + ";".join([e0, e0] + el[1:2] + [e0] + el[2:3]) + "]"
            changed = True
    return g if changed else None

def _samples(ctx, cg, n):
    out = []
    for i in range(n):
        opts = ctx.rng.choice(cg.opts)
        f = cg.valid(ctx.rng)
        if i == n - 1:
            g = _dup_elements(ctx.rng, f)
            if g is not None and (not cg.can_pack or _valid_bytes(cg, opts, gen.sets(g)) is not None):
                f = g
        sets = gen.sets(f)
        b = _valid_bytes(cg, opts, sets) if cg.can_pack else None
        out.append((opts, f, sets, b))
    return out

# ------------------------------------------------------------------------------------------- C13
def _history(ctx, cg, samples, maxlen=8, corrupt=False):
    rng = ctx.rng
    opts, f0, sets0, b0 = rng.choice(samples)
    same = [s for s in samples if s[0] == opts]
    ops = []
    for _ in range(rng.randrange(1, maxlen)):
        c = rng.random()
        o, f, sets, b = rng.choice(same)
        if cg.cls in gen.CONTAINER and rng.random() < 0.12:
            # container protocol at any point of a history: len(obj) / obj[i] (indices around the element count)
            cop = gen.container_op(rng, cg.cls, f)
            if cop is not None:
                ops.append(cop)
                continue
        if c < 0.25 and cg.can_pack:
            ops.append(cg.pack_op())
        elif c < 0.55 and b is not None and cg.can_unpack:
            ops.append(cg.unpack_op(b))
        elif c < 0.65 and b is not None and cg.can_unpack:
            m = rng.choice(gen.malformed(rng, b, cg.length_fields, max_trunc=8) or [b""])
            ops.append(cg.unpack_op(m))
        elif c < 0.84:
            k = rng.choice(list(f.keys()))
            ops.append("set %s %s" % (k, f[k]))
        elif c < 0.90:
            ops.append("iter")
        elif c < 0.95 and cg.can_pack and corrupt:
            # (oracle histories only: the models' domain excludes absurd values) a pack that raises part-way: a value that no struct code accepts in a LATER element of a list field
            # (or in a plain field); what the object is left with must not leak into later calls
            bad = _corrupt(rng, f)
            if bad is not None:
                ops.append("set %s %s" % bad)
                ops.append(cg.pack_op())
                ops.append("set %s %s" % (bad[0], f[bad[0]]))
        else:
            ops.append("obs")
    return opts, ops, same

HUGE = str(2 ** 70)

def _corrupt(rng, f):
    """(field, canonical text) where one integer has been replaced by a value that cannot be packed; prefers the
    second or later element of a list of objects"""
    import re
    ks = [k for k, v in f.items() if v.startswith("[") and v.count("{") >= 2]
    if ks and rng.random() < 0.7:
        k = rng.choice(ks)
        v = f[k]
        # positions of `name=<digits>` inside the second or later element
        second = v.find("};") + 2
        m = list(re.finditer(r"=(\d+)(?=[,}])", v[second:]))
        if m:
            mm = rng.choice(m)
            return k, v[:second + mm.start(1)] + HUGE + v[second + mm.end(1):]
    ks = [k for k, v in f.items() if v.isdigit()]
    if ks:
        return rng.choice(ks), HUGE
    return None

def corr_C13(ctx):
    lines = []
    for name, cg in sorted(_classgens().items()):
        samples = _samples(ctx, cg, 6)
        for _ in range(ctx.scale(40, 2000)):
            opts, ops, same = _history(ctx, cg, samples)
            tail = ["obs"]
            if cg.can_pack:
                tail += [cg.pack_op(), "obs", cg.pack_op(), "obs"]
            lines.append(gen.H(cg.cls, ops + tail, opts))
    return lines

def check_history_independence(args):
    """after any history, `unpack b` leaves the object as a fresh object given `unpack b`; `pack`
       twice gives identical bytes and leaves the fields as the first call left them"""
    cls, opts, ops, final = args["cls"], args["opts"], args["ops"], args["final"]
    a = ADAPTERS[cls]
    po = [pyval(parse_val(x)) for x in opts]
    cgs = _classgens()
    cg = cgs[cls]
    tail = list(final) + ["obs"] + ([cg.pack_op(), "obs"] if cg.can_pack else [])
    _, d1, out1 = run_ops_impl(a, po, list(ops) + tail)
    _, d2, out2 = run_ops_impl(a, po, tail)
    t1, t2 = out1[len(ops):], out2
    if final and final[0].startswith("unpack"):
        if t1 != t2 and "timeout" not in "".join(t1 + t2):
            return "%s: after history %s, %s gives %s but on a fresh object %s" % (cls, ops, tail, t1, t2)
    if cg.can_pack and not d1:
        _, d3, out3 = run_ops_impl(a, po, list(ops) + [cg.pack_op(), "obs", cg.pack_op(), "obs"])
        p1, o1, p2, o2 = out3[-4:]
        if p1.startswith("ok:") and (p1 != p2 or o1 != o2):
            return "%s: pack twice after %s differs: %s / %s ; fields %s / %s" % (cls, ops, p1[:80], p2[:80], o1[:120], o2[:120])
    return None

def check_two_objects(args):
    """two live objects of one class, operations interleaved, behave as each would alone"""
    cls, opts, ops_a, ops_b = args["cls"], args["opts"], args["ops_a"], args["ops_b"]
    a = ADAPTERS[cls]
    po = [pyval(parse_val(x)) for x in opts]
    _, _, alone_a = run_ops_impl(a, po, ops_a)
    _, _, alone_b = run_ops_impl(a, po, ops_b)
    oa, ob = a.ctor(*po), a.ctor(*po)
    da = db = False
    ra, rb = [], []
    i = j = 0
    while i < len(ops_a) or j < len(ops_b):
        if i < len(ops_a):
            da, r = core.step_impl(a, oa, da, ops_a[i]); ra.append(r); i += 1
        if j < len(ops_b):
            db, r = core.step_impl(a, ob, db, ops_b[j]); rb.append(r); j += 1
    if ra != alone_a or rb != alone_b:
        return "%s: two interleaved objects influence each other: %s vs alone %s" % (cls, (ra, rb), (alone_a, alone_b))
    return None

def check_forwarded(args):
    """"unpack never changes any other object": x decodes a buffer, a second object y of the class is given x's
    field VALUES by plain assignment (y.f = x.f — the way a time stamp or a payload is forwarded), then x decodes
    another buffer / is packed again; y's observable state and encoding must stay exactly as they were"""
    cls, opts = args["cls"], args["opts"]
    a = ADAPTERS[cls]
    cg = _classgens()[cls]
    po = [pyval(parse_val(v)) for v in opts]
    ua = [pyval(parse_val(v)) for v in cg.unpack_args]
    x, y = a.ctor(*po), a.ctor(*po)
    if guarded(lambda: a.unpack(x, bytes.fromhex(args["buf1"]), *ua))[0] != "ok":
        return None
    for f in a.fields:
        if hasattr(x, f):
            try:
                setattr(y, f, getattr(x, f))
            except Exception:
                pass
    before = guarded(lambda: canon(y))
    pk_before = guarded(lambda: a.pack(y, *[pyval(parse_val(v)) for v in cg.pack_args])) if cg.can_pack else None
    after_pack = guarded(lambda: canon(y))
    for b in args["bufs"]:
        guarded(lambda: a.unpack(x, bytes.fromhex(b), *ua))
        if cg.can_pack and args.get("repack"):
            guarded(lambda: a.pack(x, *[pyval(parse_val(v)) for v in cg.pack_args]))
    after = guarded(lambda: canon(y))
    if before[0] == "ok" and after[0] == "ok" and after[1] != (after_pack[1] if after_pack[0] == "ok" else before[1]):
        return "%s: an object given another's field values changed when the OTHER object decoded its next buffer: %s -> %s" % (
            cls, after_pack[1][:160], after[1][:160])
    if pk_before is not None and pk_before[0] == "ok":
        pk_after = guarded(lambda: a.pack(y, *[pyval(parse_val(v)) for v in cg.pack_args]))
        if pk_after[0] == "ok" and pk_after[1] != pk_before[1]:
            return "%s: an object given another's field values encodes differently after the OTHER object decoded its next buffer" % cls
    return None

def _shrink_ops(args, key, check, what):
    """greedy removal of operations while the check still fails (minimal replay)"""
    ops = list(args[key])
    i = 0
    while i < len(ops):
        trial = dict(args)
        trial[key] = ops[:i] + ops[i + 1:]
        w = check(trial)
        if w:
            ops = trial[key]
            what = w
        else:
            i += 1
    out = dict(args)
    out[key] = ops
    return out, what

def _mutate_in_place(o, rng, depth=0):
    """change every mutable thing reachable from `o` in place (without assigning o's own attributes):
    lists get an element appended, bytearrays a byte, nested objects get their int attributes changed"""
    n = 0
    for name, v in list(vars(o).items()) if hasattr(o, "__dict__") else []:
        if isinstance(v, list):
            v.append(v[0] if v else 0x5A)
            n += 1
        elif isinstance(v, bytearray):
            v.append(0x5A)
            n += 1
        elif isinstance(v, dict):
            v["__verif__"] = 1
            n += 1
        elif hasattr(v, "__dict__") and not isinstance(v, type) and depth < 2 and type(v).__module__.startswith("AcraNetwork"):
            for an, av in list(vars(v).items()):
                if isinstance(av, int) and not isinstance(av, bool):
                    try:
                        setattr(v, an, av + 1)
                        n += 1
                    except Exception:
                        pass
            n += _mutate_in_place(v, rng, depth + 1)
    return n

def check_no_sharing(args):
    """two objects of one class built the same way share no state: changing one in place (appending to its
    lists, stamping its nested time objects, decoding a buffer into it) leaves the other exactly as it was"""
    cls, opts = args["cls"], args["opts"]
    a = ADAPTERS[cls]
    cg = _classgens()[cls]
    po = [pyval(parse_val(x)) for x in opts]
    x, y = a.ctor(*po), a.ctor(*po)
    before = guarded(lambda: canon(y))
    rng = core.Rng(args.get("seed", 0))
    _mutate_in_place(x, rng)
    if args.get("buf") and cg.can_unpack:
        guarded(lambda: a.unpack(x, bytes.fromhex(args["buf"]), *[pyval(parse_val(v)) for v in cg.unpack_args]))
        _mutate_in_place(x, rng)
    after = guarded(lambda: canon(y))
    if before[0] == "ok" and after[0] == "ok" and before[1] != after[1]:
        return "%s: changing one object in place changed another object built the same way: %s -> %s" % (
            cls, before[1][:200], after[1][:200])
    z = a.ctor(*po)
    fresh = guarded(lambda: canon(z))
    if before[0] == "ok" and fresh[0] == "ok" and before[1] != fresh[1]:
        return "%s: a newly constructed object no longer starts in the initial state: %s instead of %s" % (
            cls, fresh[1][:200], before[1][:200])
    return None

def _walk_mutables(o, path, seen, out, depth=0):
    """(id -> first path) of every mutable thing reachable from o through attributes and list elements"""
    if depth > 4:
        return
    items = []
    if isinstance(o, list):
        items = [("%s[%d]" % (path, i), v) for i, v in enumerate(o)]
    elif hasattr(o, "__dict__") and not isinstance(o, type):
        items = [("%s.%s" % (path, k), v) for k, v in vars(o).items()]
    for p, v in items:
        mutable = isinstance(v, (list, bytearray, dict)) or (hasattr(v, "__dict__") and not isinstance(v, type)
                                                             and type(v).__module__.startswith("AcraNetwork"))
        if not mutable or callable(v) and not hasattr(v, "pack"):
            continue
        if id(v) in seen:
            out.append((seen[id(v)], p, v))
            continue
        seen[id(v)] = p
        _walk_mutables(v, p, seen, out, depth + 1)

def check_internal_aliasing(args):
    """the parts of ONE decoded object are separate objects: changing one element in place (assigning an
    attribute, decoding into it) must not change another element — `unpack` may not hand out the same mutable
    object twice (e.g. for byte-identical elements of a container)"""
    cls, opts = args["cls"], args["opts"]
    a = ADAPTERS[cls]
    cg = _classgens()[cls]
    po = [pyval(parse_val(x)) for x in opts]
    x = a.ctor(*po)
    r = guarded(lambda: a.unpack(x, bytes.fromhex(args["buf"]), *[pyval(parse_val(v)) for v in cg.unpack_args]))
    if r[0] != "ok":
        return None
    dup = []
    _walk_mutables(x, cls, {}, dup)
    for p1, p2, v in dup:
        if isinstance(v, (list, bytearray, dict)) and len(v) == 0 and False:
            continue
        return "%s.unpack: %s and %s of the decoded object are the SAME %s object: changing one in place changes the other" % (
            cls, p1, p2, type(v).__name__)
    return None

def oracle_internal_aliasing(ctx, classes=None):
    fails, n = [], 0
    for name, cg in sorted(_classgens().items()):
        if classes is not None and name not in classes:
            continue
        if not (cg.can_pack and cg.can_unpack):
            continue
        bad = False
        for opts in cg.opts[:3]:
            for j in range(ctx.scale(4, 40)):
                f = cg.valid(ctx.rng)
                g = _dup_elements(ctx.rng, f) if j % 2 == 0 else None
                b = _valid_bytes(cg, opts, gen.sets(g)) if g is not None else None
                if b is None:
                    b = _valid_bytes(cg, opts, gen.sets(f))
                if b is None:
                    continue
                args = {"cls": cg.cls, "opts": list(opts), "buf": b.hex()}
                n += 1
                w = check_internal_aliasing(args)
                if w:
                    fails.append(Failure("internal_aliasing", args, w, {"class": cg.cls, "check": "aliasing"}))
                    bad = True
                    break
            if bad:
                break
    ctx.count("oracle_evaluations", n)
    return fails

def _to_bytearray_fields(o, depth=0):
    """replace every bytes-valued attribute reachable from `o` (own attributes, elements of list attributes, nested codec
    objects) by an equal bytearray: a caller may hand the library mutable buffers; returns the number replaced"""
    n = 0
    if depth > 3 or not hasattr(o, "__dict__"):
        return 0
    for k, v in list(vars(o).items()):
        if type(v) is bytes:
            try:
                setattr(o, k, bytearray(v)); n += 1
            except Exception:
                pass
        elif isinstance(v, list):
            for i, e in enumerate(v):
                if type(e) is bytes:
                    v[i] = bytearray(e); n += 1
                elif hasattr(e, "__dict__") and type(e).__module__.startswith("AcraNetwork"):
                    n += _to_bytearray_fields(e, depth + 1)
        elif hasattr(v, "__dict__") and not isinstance(v, type) and type(v).__module__.startswith("AcraNetwork"):
            n += _to_bytearray_fields(v, depth + 1)
    return n

def _as_bytes_canon(o):
    return guarded(lambda: canon(o))

def check_input_forms(args):
    """the bytes a caller supplies may arrive as bytes, bytearray or memoryview, through `unpack(buf)` or through the
    constructor-with-buffer form, and payload fields may be bytearrays:
      * unpack(bytearray(b)) / unpack(memoryview(b)) leave the object in the same observable state as unpack(b);
      * afterwards the decoded object does not depend on the caller's buffer (overwriting the bytearray changes nothing);
      * Class(b) is Class() followed by unpack(b) (for the classes whose constructor takes a buffer), for each form;
      * pack() of an object whose bytes fields are bytearrays returns the same bytes as with bytes fields, twice, and
        leaves every field as it was (`+=` on a caller's bytearray would grow it)."""
    import inspect
    cls, opts = args["cls"], args["opts"]
    a = ADAPTERS[cls]
    cg = _classgens()[cls]
    po = [pyval(parse_val(x)) for x in opts]
    ua = [pyval(parse_val(v)) for v in cg.unpack_args]
    b = bytes.fromhex(args["buf"])
    ref = a.ctor(*po)
    r0 = guarded(lambda: a.unpack(ref, b, *ua))
    if r0[0] != "ok":
        return None
    want = _as_bytes_canon(ref)
    if want[0] != "ok":
        return None
    # The properties quantify over byte strings (`bytes`).  For another bytes-like argument the claim made here is only:
    # IF the call succeeds, it decodes the same bytes to the same state (a class may refuse the type with an ordinary
    # exception — PTDP / PTFR do, through the hashing `lru_cache` of the Golay decoder — and a decoded object may keep
    # a reference to a caller's mutable buffer — PCMMinorFrame in throughput mode does; neither is claimed here).
    for form in ("bytearray", "memoryview"):
        src = bytearray(b)
        x = a.ctor(*po)
        given = src if form == "bytearray" else memoryview(src)
        r = guarded(lambda: a.unpack(x, given, *ua))
        if r[0] != "ok":
            continue
        got = _as_bytes_canon(x)
        if got[0] == "ok" and got[1] != want[1]:
            return "%s.unpack(%s(b)) succeeds and leaves another state than unpack(b): %s instead of %s" % (cls, form, got[1][:160], want[1][:160])
    # constructor-with-buffer form
    real = type(ref)
    try:
        params = list(inspect.signature(real.__init__).parameters.values())[1:]
    except Exception:
        params = []
    # (only for the adapter that stands for the class itself: variants such as EthernetFCS decode with other arguments)
    if not po and params and params[0].name in ("buf", "buffer") and params[0].default is None and not ua \
            and a.name == real.__name__:
        for form, mk in (("bytes", bytes), ("bytearray", bytearray)):
            r = guarded(lambda: real(mk(b)))
            if r[0] != "ok":
                if form == "bytes":
                    return "%s(b) raises (%s) where %s().unpack(b) succeeds" % (cls, r[1], cls)
                continue
            got = _as_bytes_canon(r[1])
            if got[0] == "ok" and got[1] != want[1]:
                return "%s(b) with b a %s object is not %s() followed by unpack(b): %s instead of %s" % (cls, form, cls, got[1][:160], want[1][:160])
    # pack with bytearray-valued fields: on the decoded object, and on the object as the caller assembled it (`sets`:
    # a decoded Chapter 11 payload already holds its filler, an assigned one of 5 bytes does not)
    for how in (("decoded",) + (("assigned",) if args.get("sets") else ())) if cg.can_pack else ():
        def mk():
            if how == "decoded":
                o = a.ctor(*po)
                guarded(lambda: a.unpack(o, b, *ua))
                return o
            o, _, _ = run_ops_impl(a, po, list(args["sets"]))
            return o
        y = mk()
        pa = [pyval(parse_val(v)) for v in cg.pack_args]
        p0 = guarded(lambda: a.pack(y, *pa))
        z = mk()
        if p0[0] == "ok" and _to_bytearray_fields(z):
            before = _as_bytes_canon(z)
            p1 = guarded(lambda: a.pack(z, *pa))
            mid = _as_bytes_canon(z)
            p2 = guarded(lambda: a.pack(z, *pa))
            if p1[0] == "ok" and bytes(p1[1]) != bytes(p0[1]):
                return "%s.pack with bytearray payload fields emits other bytes than with bytes fields" % cls
            if p1[0] == "ok" and p2[0] == "ok" and bytes(p2[1]) != bytes(p1[1]):
                return "%s.pack twice on an object whose payload fields are bytearrays: the second call emits other bytes than the first (%d and %d bytes: a field was changed in place)" % (
                    cls, len(p2[1]), len(p1[1]))
            yb = _as_bytes_canon(y)
            if p1[0] == "ok" and mid[0] == "ok" and yb[0] == "ok" and mid[1] != yb[1]:
                return "%s.pack changed a bytearray field of the object in place: %s instead of %s" % (cls, mid[1][:160], yb[1][:160])
    return None

def oracle_input_forms(ctx, classes=None):
    fails, n = [], 0
    for name, cg in sorted(_classgens().items()):
        if classes is not None and name not in classes:
            continue
        if not (cg.can_pack and cg.can_unpack):
            continue
        bad = False
        for opts in cg.opts[:3]:
            for j in range(ctx.scale(5, 60)):
                sets = gen.sets(cg.valid(ctx.rng))
                b = _valid_bytes(cg, opts, sets)
                if b is None:
                    continue
                args = {"cls": cg.cls, "opts": list(opts), "buf": b.hex(), "sets": sets}
                n += 1
                try:
                    w = check_input_forms(args)
                except Exception as e:
                    w = None
                if w:
                    fails.append(Failure("input_forms", args, w, {"class": cg.cls, "check": "input_forms"}))
                    bad = True
                    break
            if bad:
                break
    ctx.count("oracle_evaluations", n)
    return fails

def oracle_no_sharing(ctx, classes=None):
    """run for every codec class (cheap); contributes to every codec property: a round trip 'into a new object'
    means nothing if new objects share state"""
    fails, n = [], 0
    for name, cg in sorted(_classgens().items()):
        if classes is not None and name not in classes:
            continue
        for opts in cg.opts[:3]:
            f = cg.valid(ctx.rng)
            b = _valid_bytes(cg, opts, gen.sets(f)) if cg.can_pack else None
            args = {"cls": cg.cls, "opts": list(opts), "buf": b.hex() if b else None, "seed": ctx.seed}
            n += 1
            w = check_no_sharing(args)
            if w:
                fails.append(Failure("no_sharing", args, w, {"class": cg.cls, "check": "aliasing"}))
                break
    ctx.count("oracle_evaluations", n)
    return fails

def oracles_C13(ctx, hints):
    fails = []
    n = 0
    for name, cg in sorted(_classgens().items()):
        samples = _samples(ctx, cg, 6)
        bad = False
        for _ in range(ctx.scale(60, 3000) * (4 if getattr(ctx, "search_mode", False) else 1)):
            opts, ops, same = _history(ctx, cg, samples, corrupt=True)
            bs = [s for s in same if s[3] is not None]
            final = []
            if bs and cg.can_unpack:
                fb = ctx.rng.choice(bs)[3]
                if ctx.rng.random() < 0.35:
                    # the property speaks of any buffer: also mutants of valid packets (reserved values,
                    # boundary bytes) — kept only if a new object accepts them
                    ms = gen.malformed(ctx.rng, fb, cg.length_fields, max_trunc=4)
                    if ms:
                        fb = ctx.rng.choice(ms)
                final = [cg.unpack_op(fb)]
            args = {"cls": cg.cls, "opts": list(opts), "ops": ops, "final": final}
            n += 1
            w = check_history_independence(args)
            if w:
                args, w = _shrink_ops(args, "ops", check_history_independence, w)
                fails.append(Failure("history_independence", args, w, {"class": cg.cls, "check": "history"}))
                bad = True
                break
        if bad:
            continue
        for _ in range(ctx.scale(10, 300)):
            opts, ops_a, same = _history(ctx, cg, samples)
            _, ops_b, _ = _history(ctx, cg, same)
            args = {"cls": cg.cls, "opts": list(opts), "ops_a": ops_a + ["obs"], "ops_b": ops_b + ["obs"]}
            n += 1
            w = check_two_objects(args)
            if w:
                fails.append(Failure("two_objects", args, w, {"class": cg.cls, "check": "aliasing"}))
                break
    for name, cg in sorted(_classgens().items()):             # field values forwarded to a second object
        if not (cg.can_unpack and cg.can_pack):
            continue
        for opts in cg.opts[:2]:
            bufs = []
            for _ in range(ctx.scale(8, 60)):
                b = _valid_bytes(cg, opts, gen.sets(cg.valid(ctx.rng)))
                if b:
                    bufs.append(b.hex())
            bad = False
            for i in range(len(bufs) - 1):
                args = {"cls": cg.cls, "opts": list(opts), "buf1": bufs[i], "bufs": bufs[i + 1:i + 3], "repack": i % 2 == 1}
                n += 1
                w = check_forwarded(args)
                if w:
                    fails.append(Failure("forwarded", args, w, {"class": cg.cls, "check": "aliasing"}))
                    bad = True
                    break
            if bad:
                break
    ctx.count("oracle_evaluations", n)
    return fails + oracle_no_sharing(ctx) + oracle_internal_aliasing(ctx) + oracle_input_forms(ctx)

# ------------------------------------------------------------------------------------------- C14
def _twins(ctx, cg):
    """(opts, sets_a, sets_b, differing_field or None)"""
    rng = ctx.rng
    opts = rng.choice(cg.opts)
    f = cg.valid(rng)
    out = [(opts, f, dict(f), None)]
    for k in (cg.eq_fields or list(f.keys())):
        for _ in range(3):
            alt = None
            if cg.alt is not None:
                alt = cg.alt(rng, k, f[k])
            if alt is None:
                g = cg.valid(rng)
                alt = g.get(k)
            if alt is not None and alt != f[k]:
                h = dict(f)
                h[k] = alt
                out.append((opts, f, h, k))
                break
    for fa2, fb2, label in (cg.extra_twins(rng) if getattr(cg, "extra_twins", None) else []):
        out.append((opts, fa2, fb2, label))
    for grp in getattr(cg, "groups", ()):
        for _ in range(6):
            g = cg.valid(rng)
            if any(g.get(k) != f.get(k) for k in grp):
                h = dict(f)
                for k in grp:
                    h[k] = g[k]
                out.append((opts, f, h, "+".join(grp)))
                out.append((opts, h, f, "+".join(grp)))      # equality need not be symmetric: try both orders
                break
    return out

def _lib_eq_class(c):
    """the class of the library in c's MRO that defines the `__eq__` c uses (None: object's identity comparison)"""
    for b in type.mro(c):
        if "__eq__" in vars(b):
            return b if b.__module__.startswith("AcraNetwork") else None
    return None

_REL_CACHE = {}

def relatives():
    """{adapter name: {"other": [names of unrelated adapters], "sub": [...], "base": [...]}} from the real classes:
    `sub` = adapters whose class is a proper subclass of this one's, `base` = adapters whose class is a proper base
    class that takes part in the family's `__eq__`; everything else that can be constructed is `other`."""
    if _REL_CACHE:
        return _REL_CACHE
    objs = {}
    for n, ad in sorted(ADAPTERS.items()):
        if ad.ctor is None:
            continue
        try:
            objs[n] = type(ad.ctor())
        except Exception:
            continue
    for n, c in objs.items():
        rel = {"other": [], "sub": [], "base": []}
        for m, d in objs.items():
            if d is c:
                continue
            if issubclass(d, c):
                rel["sub"].append(m)
            elif issubclass(c, d):
                if _lib_eq_class(d) is not None:
                    rel["base"].append(m)
            else:
                rel["other"].append(m)
        _REL_CACHE[n] = rel
    return _REL_CACHE

def _foreign_lines(ctx, cg):
    """`a == x` for x = None, 0, "x", b"", [], object(), objects of unrelated codec classes; and for instances of the
    library's subclasses / base classes of the class (same class-level fields: the case an `isinstance` guard lets
    through; and one field changed)"""
    rng = ctx.rng
    rel = relatives().get(cg.cls, {"other": [], "sub": [], "base": []})
    cgs = _classgens()
    lines = []
    for _ in range(ctx.scale(2, 30)):
        opts = rng.choice(cg.opts)
        fa = cg.valid(rng)
        left = gen.sets(fa)
        for kind in core.FOREIGN_KINDS:
            if kind != "other":
                lines.append(gen.E(cg.cls, left, ["@" + kind], opts))
        others = list(rel["other"])
        rng.shuffle(others)
        for m in others[:ctx.scale(4, 40)]:
            lines.append(gen.E(cg.cls, left, ["@other:" + m], opts))
        lines.append(gen.E(cg.cls, [], ["@none"], opts))            # a newly constructed object on the left
        for m in rel["sub"]:
            # the subclass instance is given this class's field values (all equal / one changed)
            lines.append(gen.E(cg.cls, left, ["@sub:" + m] + left, opts))
            k = rng.choice(list(fa.keys()))
            alt = cg.alt(rng, k, fa[k]) if cg.alt is not None else cg.valid(rng).get(k)
            if alt is not None:
                lines.append(gen.E(cg.cls, left, ["@sub:" + m] + gen.sets(dict(fa, **{k: alt})), opts))
            lines.append(gen.E(cg.cls, left, ["@sub:" + m], opts))
        for m in rel["base"]:
            if m not in cgs:
                continue
            fb = cgs[m].valid(rng)
            common = {k: v for k, v in fb.items() if k in fa}
            lines.append(gen.E(cg.cls, gen.sets(dict(fa, **common)), ["@base:" + m] + gen.sets(common), opts))
            lines.append(gen.E(cg.cls, left, ["@base:" + m] + gen.sets(common), opts))
            lines.append(gen.E(cg.cls, left, ["@base:" + m], opts))
    return lines

def corr_C14(ctx):
    lines = []
    for name, cg in sorted(_classgens().items()):
        if not cg.has_eq:
            continue
        for _ in range(ctx.scale(6, 200)):
            for opts, fa, fb, k in _twins(ctx, cg):
                lines.append(gen.E(cg.cls, gen.sets(fa), gen.sets(fb), opts))
        before = len(lines)
        lines += _foreign_lines(ctx, cg)
        ctx.count("lines_foreign_operands", len(lines) - before)
    return lines

FOREIGN = [5, None, b"", "text", [], object()]

def check_eq(args):
    cls, opts, fa, fb = args["cls"], args["opts"], args["a"], args["b"]
    a = ADAPTERS[cls]
    cg = _classgens()[cls]
    po = [pyval(parse_val(x)) for x in opts]
    oa, da, _ = run_ops_impl(a, po, gen.sets(fa) + (["iter"] if args.get("iter") else []))
    ob, db, _ = run_ops_impl(a, po, gen.sets(fb))
    if da or db:
        return None
    st = guarded(lambda: oa == ob)
    if st[0] != "ok":
        return "%s: comparing two %s objects raised (%s)%s" % (cls, cls, st[1], " after the left one had been iterated" if args.get("iter") else "")
    if args.get("iter") and fa == fb and st[1] is not True:
        return "%s: identical twins compare unequal after the left one had been iterated" % cls
    if st[1] and cg.can_pack:
        pa = guarded(lambda: a.pack(oa, *[pyval(parse_val(x)) for x in cg.pack_args]))
        pb = guarded(lambda: a.pack(ob, *[pyval(parse_val(x)) for x in cg.pack_args]))
        if pa[0] == "ok" and pb[0] == "ok" and bytes(pa[1]) != bytes(pb[1]):
            return "%s: a == b but they encode differently (field %s: %s vs %s)" % (cls, args.get("field"), fa.get(args.get("field")), fb.get(args.get("field")))
    return None

def check_eq_decode(args):
    cls, opts, fa = args["cls"], args["opts"], args["a"]
    a = ADAPTERS[cls]
    cg = _classgens()[cls]
    po = [pyval(parse_val(x)) for x in opts]
    oa, da, out = run_ops_impl(a, po, gen.sets(fa) + [cg.pack_op()])
    if da or not out[-1].startswith("ok:x"):
        return None
    b = bytes.fromhex(out[-1][4:])
    ob = a.ctor(*po)
    if args.get("prior"):
        # decode into an object that was used before (it decoded another packet of the same class first)
        guarded(lambda: a.unpack(ob, bytes.fromhex(args["prior"]), *[pyval(parse_val(x)) for x in cg.unpack_args]))
    st = guarded(lambda: a.unpack(ob, b, *[pyval(parse_val(x)) for x in cg.unpack_args]))
    if st[0] != "ok":
        return None          # decode failures are C01..C06's business
    st = guarded(lambda: oa == ob)
    if st[0] != "ok":
        return "%s: comparing an object with its decoded encoding raised (%s)" % (cls, st[1])
    if not st[1]:
        return "%s: the object decoded from a's encoding%s does not compare equal to a" % (
            cls, " (into an object that had decoded another packet before)" if args.get("prior") else "")
    return None

def check_eq_foreign(args):
    cls, opts, fa = args["cls"], args["opts"], args["a"]
    a = ADAPTERS[cls]
    po = [pyval(parse_val(x)) for x in opts]
    oa, da, _ = run_ops_impl(a, po, gen.sets(fa))
    others = list(FOREIGN)
    for other_cls, ad in sorted(ADAPTERS.items()):
        if other_cls != cls and ad.ctor is not None and not isinstance(oa, ad.types or ()):
            try:
                x = ad.ctor()
            except Exception:
                continue
            if not isinstance(x, type(oa)) and not isinstance(oa, type(x)):
                others.append(x)
                if len(others) > 10:
                    break
    for x in others:
        st = guarded(lambda: oa == x)
        if st[0] != "ok":
            return "%s == %s raised (%s) instead of returning False" % (cls, type(x).__name__, st[1])
        if st[1] is not False and st[1] is not NotImplemented and st[1]:
            return "%s == %s returned %r" % (cls, type(x).__name__, st[1])
        for what, fn, want in (("!=", lambda: oa != x, True), ("== (operands swapped)", lambda: x == oa, False),
                               ("!= (operands swapped)", lambda: x != oa, True)):
            st = guarded(fn)
            if st[0] != "ok":
                return "%s %s %s raised (%s)" % (cls, what, type(x).__name__, st[1])
            if st[1] is not want:
                return "%s %s %s returned %r" % (cls, what, type(x).__name__, st[1])
    return None

def observe_eq_related(ctx):
    """OBSERVATION, not a failure (C14 speaks of UNRELATED types): `a == x` where x is an instance of a library
    subclass / base class of a's class, given the same class-level field values.  What raises is recorded in the
    evidence notes (the model says the same: `eqSubclass` / `eqBaseclass`, compared by the correspondence)."""
    seen = set()
    cgs = _classgens()
    for name, cg in sorted(cgs.items()):
        if not cg.has_eq:
            continue
        rel = relatives().get(cg.cls, {})
        for kind in ("sub", "base"):
            for m in rel.get(kind, []):
                fa = cg.valid(ctx.rng)
                if kind == "base" and m in cgs:
                    fa = dict(fa, **{k: v for k, v in cgs[m].valid(ctx.rng).items() if k in fa})
                common = fa if kind == "sub" else {k: v for k, v in fa.items() if m in cgs and k in cgs[m].valid(ctx.rng)}
                line = gen.E(cg.cls, gen.sets(fa), ["@%s:%s" % (kind, m)] + gen.sets(common), cg.opts[0])
                r = run_line_impl(line)
                if r.startswith("err:") and (cg.cls, m) not in seen:
                    seen.add((cg.cls, m))
                    ctx.notes.append("observation (eq_related): %s == <%s instance with the same field values> raises %s "
                                     "(related by inheritance: outside C14's \"unrelated type\" clause)" % (cg.cls, m, r[4:]))
    return []

def oracles_C14(ctx, hints):
    fails = []
    n = 0
    for name, cg in sorted(_classgens().items()):
        if not cg.has_eq:
            continue
        done = set()
        for _ in range(ctx.scale(8, 300) * (4 if getattr(ctx, "search_mode", False) else 1)):
            twins = _twins(ctx, cg)
            for opts, fa, fb, k in twins:
                args = {"cls": cg.cls, "opts": list(opts), "a": fa, "b": fb, "field": k}
                if ctx.rng.random() < 0.3:
                    args["iter"] = True           # the left operand has been walked with its iterator before
                n += 1
                w = check_eq(args)
                if w and ("eq", k) not in done:
                    done.add(("eq", k))
                    fails.append(Failure("eq", args, w, {"class": cg.cls, "check": "eq_sound", "field": k}))
            opts, fa = twins[0][0], twins[0][1]          # the valid object itself (twins may mix fields)
            args = {"cls": cg.cls, "opts": list(opts), "a": fa}
            n += 2
            if cg.can_pack and cg.can_unpack and "dec" not in done:
                w = check_eq_decode(args)
                if w:
                    done.add("dec")
                    fails.append(Failure("eq_decode", args, w, {"class": cg.cls, "check": "eq_decode"}))
                else:
                    # the same into a used object: one that decoded another valid packet of the class first
                    g = cg.valid(ctx.rng)
                    pb = _valid_bytes(cg, opts, gen.sets(g))
                    if pb is not None:
                        args2 = dict(args, prior=pb.hex())
                        n += 1
                        w = check_eq_decode(args2)
                        if w and check_eq_decode(args) is None:
                            done.add("dec")
                            fails.append(Failure("eq_decode", args2, w, {"class": cg.cls, "check": "eq_decode", "into": "used_object"}))
            if "for" not in done:
                w = check_eq_foreign(args)
                if w:
                    done.add("for")
                    fails.append(Failure("eq_foreign", args, w, {"class": cg.cls, "check": "eq_foreign"}))
    ctx.count("oracle_evaluations", n)
    observe_eq_related(ctx)
    return fails

# ------------------------------------------------------------------------------------------- C08
def _malformed_stream(ctx, cg, samples):
    rng = ctx.rng
    out = []
    for opts, f, sets, b in samples:
        if b is None:
            continue
        for m in gen.malformed(rng, b, cg.length_fields, max_trunc=ctx.scale(24, 400)):
            out.append((opts, m))
    for _ in range(ctx.scale(40, 4000)):
        out.append((rng.choice(cg.opts), rng.bytes_(rng.randrange(0, 120))))
    return out

def corr_C08(ctx):
    lines = []
    for name, cg in sorted(_classgens().items()):
        if not cg.can_unpack:
            continue
        samples = _samples(ctx, cg, ctx.scale(3, 12))
        for opts, m in _malformed_stream(ctx, cg, samples):
            lines.append(gen.H(cg.cls, [cg.unpack_op(m), "obs"], opts))
    return lines

def check_total(args):
    """unpack terminates within the watchdog and allocates no more than 64*len + 1 MiB"""
    cls, opts, b = args["cls"], args["opts"], bytes.fromhex(args["buf"])
    a = ADAPTERS[cls]
    cg = _classgens()[cls]
    po = [pyval(parse_val(x)) for x in opts]
    o = a.ctor(*po)
    ua = [pyval(parse_val(x)) for x in cg.unpack_args]
    tracemalloc.start()
    try:
        st = guarded(lambda: a.unpack(o, b, *ua))
        cur, peak = tracemalloc.get_traced_memory()
    finally:
        tracemalloc.stop()
    if st[0] == "timeout":
        return "%s.unpack did not return within %d s on %d bytes" % (cls, core.WATCHDOG_S, len(b))
    if st[0] == "err" and st[1] in ("recursion", "memory"):
        return "%s.unpack hit %s on %d bytes" % (cls, st[1], len(b))
    if peak > 64 * 1024 * 1024 // 64 + 4096 * len(b) + (1 << 20):
        return "%s.unpack allocated %d bytes for a %d-byte buffer" % (cls, peak, len(b))
    return None

def oracles_C08(ctx, hints):
    fails = []
    n = 0
    for name, cg in sorted(_classgens().items()):
        if not cg.can_unpack:
            continue
        samples = _samples(ctx, cg, ctx.scale(3, 12))
        for opts, m in _malformed_stream(ctx, cg, samples):
            args = {"cls": cg.cls, "opts": list(opts), "buf": m.hex()}
            n += 1
            w = check_total(args)
            if w:
                fails.append(Failure("total", args, w, {"class": cg.cls, "check": "total"}))
                break
    ctx.count("oracle_evaluations", n)
    return fails

ORACLES = {"no_sharing": check_no_sharing, "input_forms": check_input_forms, "internal_aliasing": check_internal_aliasing, "forwarded": check_forwarded, "history_independence": check_history_independence, "two_objects": check_two_objects,
           "eq": check_eq, "eq_decode": check_eq_decode, "eq_foreign": check_eq_foreign, "total": check_total}
